#!/bin/bash
# run_seeded.sh [seed-id ...] : applies each seeded change to /repo, runs the quick check of the property it
# breaks (plus any properties given in $ALSO), and reverts. Prints DETECTED/MISSED per seed.
set -u
cd /verif
if [ -n "$(git -C /repo status --porcelain)" ]; then echo "refusing: /repo has uncommitted changes (they would be lost by the revert)"; exit 2; fi
ids="$@"
[ -z "$ids" ] && ids=$(ls seeded)
for id in $ids; do
  d=/verif/seeded/$id
  prop=$(python3 -c "import json;print(json.load(open('$d/meta.json'))['property'])")
  if ! git -C /repo apply --check "$d/patch.diff" 2>/dev/null; then echo "$id: patch does not apply"; continue; fi
  git -C /repo apply "$d/patch.diff"
  res=""
  for p in $prop ${ALSO:-}; do
    touched="${touched:-} $p"
    if grep -q "\"property_id\": \"$p\"" MANIFEST.json; then
      out=$(bin/gritsvc check -property $p -tier quick 2>&1); rc=$?
      n=$(echo "$out" | grep -c '^VIOLATION')
      first=$(echo "$out" | grep -A1 '^VIOLATION' | grep obligation | head -2 | sed 's/^ *obligation //' | tr '\n' ';')
      res="$res $p:rc=$rc,viol=$n [$first]"
    else
      res="$res $p:not-claimed"
    fi
  done
  git -C /repo checkout -- . 
  case "$res" in *rc=1*) echo "$id: DETECTED $res";; *) echo "$id: MISSED $res";; esac
done
# evidence files were rewritten by the runs on changed trees: regenerate them on the unchanged tree
for p in $(echo $touched | tr ' ' '\n' | sort -u); do bin/gritsvc check -property $p -tier quick > /dev/null 2>&1 || echo "WARNING: $p fails on the unchanged tree"; done
