#!/bin/bash
# run_mutants.sh [name ...] : the must-fail corpus. Each selftest/mutants/<name>.diff is a small property-breaking change
# written while the contracts were developed (first line: "# property: Cxx"). Every one is applied to a scratch worktree
# of /repo's HEAD and the property's quick check is run against it with a scratch copy of the specs; the check must
# exit 1. Prints CAUGHT/ESCAPED per mutant. Development aid: not a registered command, leaves /repo and /verif/evidence alone.
set -u
export GOFLAGS=-mod=mod GOPROXY=off GOSUMDB=off GOTOOLCHAIN=local
wt=$(mktemp -d /tmp/mutwt-XXXX); rmdir "$wt"; sv=$(mktemp -d /tmp/mutverif-XXXX)
git -C /repo worktree add -q --detach "$wt" HEAD || exit 2
trap 'git -C /repo worktree remove --force "$wt" 2>/dev/null; rm -rf "$wt" "$sv"' EXIT
cp -r /verif/specs "$sv/specs"; cp /verif/known_findings.json "$sv/"
names="$@"; [ -z "$names" ] && names=$(ls /verif/selftest/mutants | sed 's/\.diff$//')
for n in $names; do
  f=/verif/selftest/mutants/$n.diff
  prop=$(head -1 "$f" | sed 's/# property: //')
  if ! git -C "$wt" apply "$f" 2>/dev/null; then echo "$n: does not apply"; continue; fi
  if ! (cd "$wt" && go build ./... >/dev/null 2>&1); then echo "$n: does not build"; git -C "$wt" checkout -- .; continue; fi
  out=$(/verif/bin/gritsvc check -property $prop -tier quick -repo "$wt" -verif "$sv" 2>&1); rc=$?
  first=$(echo "$out" | grep -A1 '^VIOLATION' | grep obligation | head -1 | sed 's/^ *obligation //' | cut -c1-150)
  if [ $rc -eq 1 ]; then echo "$n: CAUGHT [$prop] $first"; else echo "$n: ESCAPED [$prop]"; fi
  git -C "$wt" checkout -- .
done
