#!/bin/bash
# run_seeded_wt.sh [seed-id ...] : like run_seeded.sh, but works on a scratch git worktree of /repo's HEAD and a scratch
# copy of /verif's specs and known findings, so that /repo and /verif/evidence are left alone (the registered checks and
# the committed evidence always come from /verif run against /repo itself; this script is a development aid).
# Prints DETECTED/MISSED per seed; $ALSO lists further properties to run on every seed.
set -u
export GOFLAGS=-mod=mod GOPROXY=off GOSUMDB=off GOTOOLCHAIN=local
wt=$(mktemp -d /tmp/seedwt-XXXX); rmdir "$wt"
sv=$(mktemp -d /tmp/seedverif-XXXX)
git -C /repo worktree add -q --detach "$wt" HEAD || exit 2
cleanup() { git -C /repo worktree remove --force "$wt" 2>/dev/null; rm -rf "$wt" "$sv"; }
trap cleanup EXIT
cp -r /verif/specs "$sv/specs"; cp /verif/known_findings.json "$sv/"
ids="$@"
[ -z "$ids" ] && ids=$(ls /verif/seeded)
for id in $ids; do
  d=/verif/seeded/$id
  prop=$(python3 -c "import json;print(json.load(open('$d/meta.json'))['property'])")
  if ! git -C "$wt" apply --check "$d/patch.diff" 2>/dev/null; then echo "$id: patch does not apply"; continue; fi
  git -C "$wt" apply "$d/patch.diff"
  res=""
  for p in $prop ${ALSO:-}; do
    if grep -q "\"property_id\": \"$p\"" /verif/MANIFEST.json; then
      out=$(/verif/bin/gritsvc check -property $p -tier quick -repo "$wt" -verif "$sv" 2>&1); rc=$?
      n=$(echo "$out" | grep -c '^VIOLATION')
      first=$(echo "$out" | grep -A1 '^VIOLATION' | grep obligation | head -2 | sed 's/^ *obligation //' | cut -c1-140 | tr '\n' ';')
      res="$res $p:rc=$rc,viol=$n [$first]"
    else
      res="$res $p:not-claimed"
    fi
  done
  git -C "$wt" checkout -- .
  case "$res" in *rc=1*) echo "$id: DETECTED $res";; *) echo "$id: MISSED $res";; esac
done
