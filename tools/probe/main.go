// probe: runs a Grits program text (file argument, or stdin) through the real parser and typechecker of /repo
// and prints the verdict. `-run` also executes it (async polarized) under a 10 s watchdog.
package main

import (
	"fmt"
	"io"
	"os"
	"time"

	"grits/parser"
	"grits/process"
)

func main() {
	run := false
	var src []byte
	var err error
	args := os.Args[1:]
	if len(args) > 0 && args[0] == "-run" {
		run = true
		args = args[1:]
	}
	if len(args) > 0 {
		src, err = os.ReadFile(args[0])
	} else {
		src, err = io.ReadAll(os.Stdin)
	}
	if err != nil {
		fmt.Println("IO-ERROR", err)
		os.Exit(2)
	}
	done := make(chan struct{})
	go func() {
		defer func() {
			if r := recover(); r != nil {
				fmt.Println("PANIC", r)
				close(done)
			}
		}()
		procs, assumed, genv, err := parser.ParseString(string(src))
		if err != nil {
			fmt.Println("PARSE-ERROR", err)
			close(done)
			return
		}
		fmt.Printf("PARSED processes=%d functions=%d types=%d\n", len(procs), len(*genv.FunctionDefinitions), len(*genv.Types))
		if err := process.Typecheck(procs, assumed, genv); err != nil {
			fmt.Println("TYPE-ERROR", err)
			close(done)
			return
		}
		fmt.Println("ACCEPTED")
		if run {
			genv.LogLevels = []process.LogLevel{}
			re, _, _ := process.NewRuntimeEnvironment()
			re.Color = false
			re.Typechecked = true
			switch os.Getenv("PROBE_MODE") { // default: asynchronous polarised
			case "np":
				re.ExecutionVersion = process.NON_POLARIZED_SYNC
			case "sync":
				re.ExecutionVersion = process.NORMAL_SYNC
			}
			if os.Getenv("PROBE_DELAY") == "" {
				re.Delay = 0
			}
			process.InitializeProcesses(procs, genv, nil, re)
			fmt.Println("FINISHED")
		}
		close(done)
	}()
	select {
	case <-done:
		// PROBE_LINGER=<ms>: stay alive after the verdict, so that leftover background work of the typechecker
		// (a worker that goes on after reporting) shows up as a crash of this process
		if ms := os.Getenv("PROBE_LINGER"); ms != "" {
			var n int
			fmt.Sscan(ms, &n)
			time.Sleep(time.Duration(n) * time.Millisecond)
			fmt.Println("LINGERED quietly")
		}
	case <-time.After(10 * time.Second):
		fmt.Println("TIMEOUT (no verdict within 10 s)")
		os.Exit(3)
	}
}
