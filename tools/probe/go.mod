module probe

go 1.21

require grits v0.0.0

require golang.org/x/exp v0.0.0-20240808152545-0cdaa3abc0fa // indirect

replace grits => /repo
