#!/bin/bash
# confirm_seed.sh <seed-dir> : checks, in a scratch worktree of /repo HEAD, that the change compiles, keeps the
# pinned suite green, and that its demonstration fails with the change and passes without it.
# Prints one line: CONFIRMED / REJECTED <reason>.
set -u
export GOFLAGS=-mod=mod GOPROXY=off GOSUMDB=off GOTOOLCHAIN=local
d=$(readlink -f "$1")
wt=$(mktemp -d /tmp/confirm-wt-XXXX)
rmdir "$wt"
git -C /repo worktree add -q --detach "$wt" HEAD || { echo "REJECTED worktree"; exit 1; }
cleanup() { git -C /repo worktree remove --force "$wt" 2>/dev/null; rm -rf "$wt"; }
trap cleanup EXIT
cd "$wt"
place=$(python3 -c "import json;print(json.load(open('$d/meta.json'))['demo_place'].split()[0])")
cmd=$(python3 -c "import json;print(json.load(open('$d/meta.json'))['demo_cmd'])")
demo=$(ls "$d"/demo*_test.go 2>/dev/null | head -1)
[ -z "$demo" ] && { echo "REJECTED no demo test"; exit 1; }
case "$place" in *.go) target="$place";; *) target="$place/$(basename $demo)";; esac
# base: demo must pass
cp "$demo" "$target"
if ! eval "$cmd" > "$wt/.base.log" 2>&1; then echo "REJECTED demo fails on base: $(tail -3 $wt/.base.log | tr '\n' ' ')"; exit 1; fi
rm -f "$target"
git apply "$d/patch.diff" 2>/dev/null || { echo "REJECTED patch does not apply to HEAD"; exit 1; }
go build ./... > "$wt/.build.log" 2>&1 || { echo "REJECTED does not build"; exit 1; }
ok=0
for try in 1 2 3; do
  if go test -vet=off -count=1 ./... > "$wt/.suite.log" 2>&1; then ok=1; break; fi
done
if [ $ok = 0 ]; then echo "REJECTED suite fails with change: $(grep -- '--- FAIL' $wt/.suite.log | head -3 | tr '\n' ' ')"; exit 1; fi
cp "$demo" "$target"
if eval "$cmd" > "$wt/.mut.log" 2>&1; then echo "REJECTED demo passes with change"; exit 1; fi
echo "CONFIRMED"
