package main

// Contract expression language: lexer, parser, AST.
//
//   expr   ::= quant | iff
//   quant  ::= ('forall'|'exists') binder {',' binder} '::' expr
//   binder ::= ident type
//   iff    ::= imp { '<==>' imp }
//   imp    ::= or [ '==>' imp ]                     (right associative)
//   or     ::= and { '||' and }
//   and    ::= cmp { '&&' cmp }
//   cmp    ::= add [ ('=='|'!='|'<'|'<='|'>'|'>=') add ] { chained: a <= b < c }
//   add    ::= mul { ('+'|'-') mul }
//   mul    ::= unary { ('*'|'/'|'%') unary }
//   unary  ::= ('!'|'-') unary | postfix
//   postfix::= primary { '.' ident | '[' expr ']' | '(' args ')' }
//   primary::= ident | int | string | '(' expr ')'

import (
	"fmt"
	"strings"
	"unicode"
)

type cExpr interface{ String() string }

type (
	cIdent struct{ Name string }
	cInt   struct{ V string }
	cStr   struct{ V string }
	cUn    struct {
		Op string
		X  cExpr
	}
	cBin struct {
		Op   string
		X, Y cExpr
	}
	cField struct {
		X cExpr
		F string
	}
	cIndex struct{ X, I cExpr }
	cCall  struct {
		Fn   string
		Args []cExpr
	}
	cBinder struct{ Name, Type string }
	cQuant  struct {
		Forall bool
		Vars   []cBinder
		Body   cExpr
	}
)

func (e *cIdent) String() string { return e.Name }
func (e *cInt) String() string   { return e.V }
func (e *cStr) String() string   { return fmt.Sprintf("%q", e.V) }
func (e *cUn) String() string    { return e.Op + e.X.String() }
func (e *cBin) String() string   { return "(" + e.X.String() + " " + e.Op + " " + e.Y.String() + ")" }
func (e *cField) String() string { return e.X.String() + "." + e.F }
func (e *cIndex) String() string { return e.X.String() + "[" + e.I.String() + "]" }
func (e *cCall) String() string {
	var a []string
	for _, x := range e.Args {
		a = append(a, x.String())
	}
	return e.Fn + "(" + strings.Join(a, ", ") + ")"
}
func (e *cQuant) String() string {
	q := "exists"
	if e.Forall {
		q = "forall"
	}
	var b []string
	for _, v := range e.Vars {
		b = append(b, v.Name+" "+v.Type)
	}
	return "(" + q + " " + strings.Join(b, ", ") + " :: " + e.Body.String() + ")"
}

type ctok struct {
	kind string // id, int, str, op, eof
	s    string
}

func clex(src string) ([]ctok, error) {
	var out []ctok
	rs := []rune(src)
	i := 0
	ops := []string{"<==>", "==>", "::", "==", "!=", "<=", ">=", "&&", "||", "(", ")", "[", "]", ",", ".", "<", ">", "+", "-", "*", "/", "%", "!", "{", "}"}
	for i < len(rs) {
		c := rs[i]
		switch {
		case unicode.IsSpace(c):
			i++
		case unicode.IsLetter(c) || c == '_' || c == '$':
			j := i
			for j < len(rs) && (unicode.IsLetter(rs[j]) || unicode.IsDigit(rs[j]) || rs[j] == '_' || rs[j] == '$') {
				j++
			}
			out = append(out, ctok{"id", string(rs[i:j])})
			i = j
		case unicode.IsDigit(c):
			j := i
			for j < len(rs) && unicode.IsDigit(rs[j]) {
				j++
			}
			out = append(out, ctok{"int", string(rs[i:j])})
			i = j
		case c == '"':
			j := i + 1
			var sb strings.Builder
			for j < len(rs) && rs[j] != '"' {
				if rs[j] == '\\' && j+1 < len(rs) {
					j++
					switch rs[j] {
					case 'n':
						sb.WriteRune('\n')
					case 't':
						sb.WriteRune('\t')
					default:
						sb.WriteRune(rs[j])
					}
				} else {
					sb.WriteRune(rs[j])
				}
				j++
			}
			if j >= len(rs) {
				return nil, fmt.Errorf("unterminated string in %q", src)
			}
			out = append(out, ctok{"str", sb.String()})
			i = j + 1
		default:
			matched := false
			for _, op := range ops {
				if strings.HasPrefix(string(rs[i:]), op) {
					out = append(out, ctok{"op", op})
					i += len([]rune(op))
					matched = true
					break
				}
			}
			if !matched {
				return nil, fmt.Errorf("bad character %q in %q", c, src)
			}
		}
	}
	out = append(out, ctok{"eof", ""})
	return out, nil
}

type cparser struct {
	toks []ctok
	pos  int
	src  string
}

func parseCExpr(src string) (e cExpr, err error) {
	toks, err := clex(src)
	if err != nil {
		return nil, err
	}
	p := &cparser{toks: toks, src: src}
	defer func() {
		if r := recover(); r != nil {
			if s, ok := r.(string); ok {
				err = fmt.Errorf("%s in %q", s, src)
				return
			}
			panic(r)
		}
	}()
	e = p.expr()
	if p.peek().kind != "eof" {
		panic("trailing tokens at " + p.peek().s)
	}
	return e, nil
}

func (p *cparser) peek() ctok { return p.toks[p.pos] }
func (p *cparser) next() ctok { t := p.toks[p.pos]; p.pos++; return t }
func (p *cparser) isOp(s string) bool {
	t := p.peek()
	return t.kind == "op" && t.s == s
}
func (p *cparser) expect(s string) {
	if !p.isOp(s) {
		panic("expected " + s + " but found '" + p.peek().s + "'")
	}
	p.pos++
}

// parse a type up to the next ',' or '::' (types are simple: ident, *ident, []ident, pkg.ident, map[K]V)
func (p *cparser) typ() string {
	var sb strings.Builder
	depth := 0
	for {
		t := p.peek()
		if t.kind == "eof" {
			break
		}
		if depth == 0 && t.kind == "op" && (t.s == "," || t.s == "::" || t.s == ")" || t.s == "==") {
			break
		}
		if t.kind == "op" && t.s == "[" {
			depth++
		}
		if t.kind == "op" && t.s == "]" {
			depth--
		}
		sb.WriteString(t.s)
		p.pos++
	}
	return sb.String()
}

func (p *cparser) expr() cExpr {
	t := p.peek()
	if t.kind == "id" && (t.s == "forall" || t.s == "exists") {
		p.pos++
		q := &cQuant{Forall: t.s == "forall"}
		for {
			n := p.next()
			if n.kind != "id" {
				panic("expected binder name")
			}
			ty := p.typ()
			q.Vars = append(q.Vars, cBinder{n.s, ty})
			if p.isOp(",") {
				p.pos++
				continue
			}
			break
		}
		p.expect("::")
		q.Body = p.expr()
		return q
	}
	return p.iff()
}
func (p *cparser) iff() cExpr {
	x := p.imp()
	for p.isOp("<==>") {
		p.pos++
		y := p.imp()
		x = &cBin{"<==>", x, y}
	}
	return x
}
func (p *cparser) imp() cExpr {
	x := p.or()
	if p.isOp("==>") {
		p.pos++
		var y cExpr
		if t := p.peek(); t.kind == "id" && (t.s == "forall" || t.s == "exists") {
			y = p.expr()
		} else {
			y = p.imp()
		}
		return &cBin{"==>", x, y}
	}
	return x
}
func (p *cparser) or() cExpr {
	x := p.and()
	for p.isOp("||") {
		p.pos++
		x = &cBin{"||", x, p.and()}
	}
	return x
}
func (p *cparser) and() cExpr {
	x := p.cmp()
	for p.isOp("&&") {
		p.pos++
		var y cExpr
		if t := p.peek(); t.kind == "id" && (t.s == "forall" || t.s == "exists") {
			y = p.expr()
		} else {
			y = p.cmp()
		}
		x = &cBin{"&&", x, y}
	}
	return x
}
func (p *cparser) cmp() cExpr {
	x := p.add()
	var res cExpr
	for {
		t := p.peek()
		if t.kind == "op" && (t.s == "==" || t.s == "!=" || t.s == "<" || t.s == "<=" || t.s == ">" || t.s == ">=") {
			p.pos++
			y := p.add()
			c := &cBin{t.s, x, y}
			if res == nil {
				res = c
			} else {
				res = &cBin{"&&", res, c}
			}
			x = y
			continue
		}
		break
	}
	if res != nil {
		return res
	}
	return x
}
func (p *cparser) add() cExpr {
	x := p.mul()
	for p.isOp("+") || p.isOp("-") {
		op := p.next().s
		x = &cBin{op, x, p.mul()}
	}
	return x
}
func (p *cparser) mul() cExpr {
	x := p.unary()
	for p.isOp("*") || p.isOp("/") || p.isOp("%") {
		op := p.next().s
		x = &cBin{op, x, p.unary()}
	}
	return x
}
func (p *cparser) unary() cExpr {
	if p.isOp("!") || p.isOp("-") {
		op := p.next().s
		return &cUn{op, p.unary()}
	}
	return p.postfix()
}
func (p *cparser) postfix() cExpr {
	x := p.primary()
	for {
		switch {
		case p.isOp("."):
			p.pos++
			n := p.next()
			if n.kind != "id" {
				panic("expected field name")
			}
			x = &cField{x, n.s}
		case p.isOp("["):
			p.pos++
			i := p.expr()
			p.expect("]")
			x = &cIndex{x, i}
		case p.isOp("("):
			var fname string
			if id, ok := x.(*cIdent); ok {
				fname = id.Name
			} else if f, ok := x.(*cField); ok {
				// package-qualified type cast: types.SendType(x)
				if q, ok := f.X.(*cIdent); ok {
					fname = q.Name + "." + f.F
				}
			}
			if fname == "" {
				panic("call of non-identifier")
			}
			p.pos++
			c := &cCall{Fn: fname}
			if !p.isOp(")") {
				for {
					c.Args = append(c.Args, p.expr())
					if p.isOp(",") {
						p.pos++
						continue
					}
					break
				}
			}
			p.expect(")")
			x = c
		default:
			return x
		}
	}
}
func (p *cparser) primary() cExpr {
	t := p.next()
	switch t.kind {
	case "id":
		return &cIdent{t.s}
	case "int":
		return &cInt{t.s}
	case "str":
		return &cStr{t.s}
	case "op":
		if t.s == "(" {
			e := p.expr()
			p.expect(")")
			return e
		}
	}
	panic("unexpected token '" + t.s + "'")
}
