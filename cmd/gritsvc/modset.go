package main

// May-write analysis: which heap arrays, and which *shapes* of addresses in them, a function may
// write (transitively). Used for havoc + frame at calls and loop heads.

import (
	"fmt"
	"go/types"
	"sort"
	"strings"

	"golang.org/x/tools/go/ssa"
)

type writeShape struct {
	fids map[int]bool
	elem bool
	obj  bool
	any  bool
}

func (s *writeShape) merge(o *writeShape) bool {
	ch := false
	for f := range o.fids {
		if !s.fids[f] {
			s.fids[f] = true
			ch = true
		}
	}
	if o.elem && !s.elem {
		s.elem, ch = true, true
	}
	if o.obj && !s.obj {
		s.obj, ch = true, true
	}
	if o.any && !s.any {
		s.any, ch = true, true
	}
	return ch
}

type modset struct {
	real    map[string]*writeShape // writes to objects that may pre-exist the call
	fresh   map[string]bool        // keys written (only) at objects allocated inside
	unknown []string               // calls that could not be resolved
}

func newModset() *modset {
	return &modset{real: map[string]*writeShape{}, fresh: map[string]bool{}}
}

func (m *modset) shape(key string) *writeShape {
	s, ok := m.real[key]
	if !ok {
		s = &writeShape{fids: map[int]bool{}}
		m.real[key] = s
	}
	return s
}

func (m *modset) merge(o *modset) bool {
	ch := false
	for k, s := range o.real {
		if _, had := m.real[k]; !had {
			ch = true
		}
		if m.shape(k).merge(s) {
			ch = true
		}
	}
	for k := range o.fresh {
		if !m.fresh[k] {
			m.fresh[k] = true
			ch = true
		}
	}
	for _, u := range o.unknown {
		found := false
		for _, x := range m.unknown {
			if x == u {
				found = true
			}
		}
		if !found {
			m.unknown = append(m.unknown, u)
			ch = true
		}
	}
	return ch
}

func (m *modset) String() string {
	var parts []string
	for _, k := range sortedKeys(m.real) {
		s := m.real[k]
		var sh []string
		var fs []int
		for f := range s.fids {
			fs = append(fs, f)
		}
		sort.Ints(fs)
		for _, f := range fs {
			sh = append(sh, fmt.Sprintf("f%d", f))
		}
		if s.elem {
			sh = append(sh, "elem")
		}
		if s.obj {
			sh = append(sh, "obj")
		}
		if s.any {
			sh = append(sh, "any")
		}
		parts = append(parts, k+"{"+strings.Join(sh, ",")+"}")
	}
	for _, k := range sortedKeys(m.fresh) {
		if _, ok := m.real[k]; !ok {
			parts = append(parts, k+"{fresh}")
		}
	}
	if len(m.unknown) > 0 {
		parts = append(parts, "UNKNOWN:"+strings.Join(m.unknown, ";"))
	}
	return strings.Join(parts, " ")
}

// modAnalysis computes mod-sets for all module functions.
type modAnalysis struct {
	w    *world
	c    *smtctx // only used for key naming (sorts)
	sets map[*ssa.Function]*modset
	keyTypes map[string]types.Type
}

func (w *world) computeModsets() *modAnalysis {
	ma := &modAnalysis{w: w, c: newSMT(w), sets: map[*ssa.Function]*modset{}, keyTypes: map[string]types.Type{}}
	var fns []*ssa.Function
	for _, n := range sortedKeys(w.funcs) {
		fns = append(fns, w.funcs[n])
		ma.sets[w.funcs[n]] = newModset()
	}
	for changed := true; changed; {
		changed = false
		for _, fn := range fns {
			ms := ma.region(fn, nil)
			if ma.sets[fn].merge(ms) {
				changed = true
			}
		}
	}
	return ma
}

// isFreshRoot reports whether the address/map/slice value is rooted at an allocation performed inside
// the region (blocks==nil means the whole function).
func (ma *modAnalysis) freshRoot(v ssa.Value, in map[*ssa.BasicBlock]bool) bool {
	for depth := 0; depth < 20; depth++ {
		switch x := v.(type) {
		case *ssa.Alloc:
			return in == nil || in[x.Block()]
		case *ssa.MakeSlice:
			return in == nil || in[x.Block()]
		case *ssa.MakeMap:
			return in == nil || in[x.Block()]
		case *ssa.FieldAddr:
			v = x.X
		case *ssa.IndexAddr:
			v = x.X
		case *ssa.Slice:
			v = x.X
		case *ssa.Call:
			if b, ok := x.Call.Value.(*ssa.Builtin); ok && b.Name() == "append" {
				return in == nil || in[x.Block()]
			}
			return false
		default:
			return false
		}
	}
	return false
}

func (ma *modAnalysis) recordStore(ms *modset, addr ssa.Value, t types.Type, in map[*ssa.BasicBlock]bool) {
	fresh := ma.freshRoot(addr, in)
	for _, lf := range ma.c.leaves(t) {
		key := ma.cellKey(lf.typ)
		if fresh {
			ms.fresh[key] = true
			continue
		}
		sh := ms.shape(key)
		if len(lf.fids) > 0 {
			sh.fids[lf.fids[len(lf.fids)-1]] = true
			continue
		}
		switch a := addr.(type) {
		case *ssa.FieldAddr:
			st := a.X.Type().Underlying().(*types.Pointer).Elem()
			sh.fids[ma.w.fieldID(st, a.Field)] = true
		case *ssa.IndexAddr:
			sh.elem = true
		case *ssa.Alloc:
			sh.obj = true
		default:
			sh.any = true
		}
	}
}

func (ma *modAnalysis) callees(call *ssa.CallCommon) (fns []*ssa.Function, unknown string) {
	if call.IsInvoke() {
		recv := call.Value.Type()
		named, _ := recv.(*types.Named)
		if named == nil || named.Obj().Pkg() == nil || !ma.w.inModule(named.Obj().Pkg().Path()) {
			return nil, "" // external interface (error.Error, ...): assumed pure
		}
		key := named.Obj().Pkg().Path() + "." + named.Obj().Name()
		for _, impl := range ma.w.impls[key] {
			m := ma.w.prog.LookupMethod(types.NewPointer(impl), call.Method.Pkg(), call.Method.Name())
			if m != nil {
				fns = append(fns, m)
			}
		}
		return fns, ""
	}
	switch v := call.Value.(type) {
	case *ssa.Function:
		return []*ssa.Function{v}, ""
	case *ssa.MakeClosure:
		return []*ssa.Function{v.Fn.(*ssa.Function)}, ""
	case *ssa.Builtin:
		return nil, ""
	}
	return nil, "dynamic call " + call.Value.Name()
}

// region computes the direct+transitive writes of a set of blocks of fn (nil = all).
func (ma *modAnalysis) region(fn *ssa.Function, in map[*ssa.BasicBlock]bool) *modset {
	ms := newModset()
	c := ma.c
	for _, b := range fn.Blocks {
		if in != nil && !in[b] {
			continue
		}
		for _, ins := range b.Instrs {
			switch x := ins.(type) {
			case *ssa.Store:
				if a := rootAlloc(x.Addr); a != nil && isRegAlloc(a) {
					continue
				}
				ma.recordStore(ms, x.Addr, x.Val.Type(), in)
			case *ssa.Alloc:
				if isRegAlloc(x) {
					continue
				}
				for _, lf := range c.leaves(x.Type().Underlying().(*types.Pointer).Elem()) {
					ms.fresh[ma.cellKey(lf.typ)] = true
				}
				if at, ok := x.Type().Underlying().(*types.Pointer).Elem().Underlying().(*types.Array); ok {
					for _, lf := range c.leaves(at.Elem()) {
						ms.fresh[ma.cellKey(lf.typ)] = true
					}
				}
			case *ssa.MakeSlice:
				for _, lf := range c.leaves(x.Type().Underlying().(*types.Slice).Elem()) {
					ms.fresh[ma.cellKey(lf.typ)] = true
				}
			case *ssa.MakeMap:
				md, mv, mc := ma.mapKeys(x.Type())
				ms.fresh[md], ms.fresh[mv], ms.fresh[mc] = true, true, true
			case *ssa.MapUpdate:
				md, mv, mc := ma.mapKeys(x.Map.Type())
				if ma.freshRoot(x.Map, in) {
					ms.fresh[md], ms.fresh[mv], ms.fresh[mc] = true, true, true
				} else {
					ms.shape(md).any, ms.shape(mv).any, ms.shape(mc).any = true, true, true
				}
			case ssa.CallInstruction:
				call := x.Common()
				if b, ok := call.Value.(*ssa.Builtin); ok {
					switch b.Name() {
					case "append":
						for _, lf := range c.leaves(call.Args[0].Type().Underlying().(*types.Slice).Elem()) {
							ms.fresh[ma.cellKey(lf.typ)] = true
						}
					case "delete":
						md, mv, mc := ma.mapKeys(call.Args[0].Type())
						if ma.freshRoot(call.Args[0], in) {
							ms.fresh[md], ms.fresh[mv], ms.fresh[mc] = true, true, true
						} else {
							ms.shape(md).any, ms.shape(mv).any, ms.shape(mc).any = true, true, true
						}
					case "copy":
						for _, lf := range c.leaves(call.Args[0].Type().Underlying().(*types.Slice).Elem()) {
							ms.shape(ma.cellKey(lf.typ)).elem = true
						}
					}
					continue
				}
				fns, unk := ma.callees(call)
				if unk != "" {
					ms.unknown = append(ms.unknown, unk)
				}
				for _, f := range fns {
					if cs, ok := ma.sets[f]; ok {
						ms.merge(cs)
					} else if ct := ma.w.db.Contracts[f.String()]; ct != nil {
						for _, k := range ct.Modifies {
							ms.shape(k).any = true
						}
					}
				}
			}
		}
	}
	return ms
}

func isRegAlloc(a *ssa.Alloc) bool {
	if _, isArr := a.Type().Underlying().(*types.Pointer).Elem().Underlying().(*types.Array); isArr {
		return false
	}
	return addrOnlyLocal(a, 0)
}

func (ma *modAnalysis) cellKey(t types.Type) string {
	k := ma.c.cellKey(t)
	ma.keyTypes[k] = t
	return k
}

func (ma *modAnalysis) mapKeys(t types.Type) (string, string, string) {
	md, mv, mc := ma.c.mapKeys(t)
	ma.keyTypes[md], ma.keyTypes[mv], ma.keyTypes[mc] = t, t, t
	return md, mv, mc
}
