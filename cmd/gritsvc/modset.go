package main

// May-write analysis: which heap arrays, and which *shapes* of addresses in them, a function may
// write (transitively). Used for havoc + frame at calls and loop heads.
//
//   - cell arrays (H_<type>): the set of field ids written, element cells, object cells, or "any";
//   - map arrays (MD_/MV_/MC_): the set of *root values* (parameters, or values defined outside the
//     region) whose maps are written, or "any". Maps created inside the region are fresh and not recorded.

import (
	"fmt"
	"go/types"
	"sort"
	"strings"

	"golang.org/x/tools/go/ssa"
)

type writeShape struct {
	fids  map[int]bool
	elem  bool
	obj   bool
	any   bool
	roots map[ssa.Value]bool // map keys only: the maps written are exactly the values of these
	objs  map[ssa.Value]bool // cell keys: local allocations (not yet escaped) that were written
	nonObj bool              // some write is not to such an object
	cellObjs map[ssa.Value]bool // local allocations (escaped or not) written by direct stores
	nonCell  bool               // some write is not a direct store into a local allocation
	// field arrays only: where the written structs live - embedded as one of these fields of an enclosing struct,
	// as slice/array elements, as objects of their own, as the target of one of these parameters (resolved at the
	// call sites), or anywhere
	efids   map[int]bool
	eelem   bool
	eobj    bool
	eany    bool
	eparams map[*ssa.Parameter]bool
}

func newShape() *writeShape {
	return &writeShape{fids: map[int]bool{}, roots: map[ssa.Value]bool{}, objs: map[ssa.Value]bool{}, cellObjs: map[ssa.Value]bool{}, efids: map[int]bool{}, eparams: map[*ssa.Parameter]bool{}}
}

func (s *writeShape) merge(o *writeShape) bool {
	ch := false
	for f := range o.fids {
		if !s.fids[f] {
			s.fids[f] = true
			ch = true
		}
	}
	for r := range o.roots {
		if !s.roots[r] {
			s.roots[r] = true
			ch = true
		}
	}
	for r := range o.objs {
		if !s.objs[r] {
			s.objs[r] = true
			ch = true
		}
	}
	if o.nonObj && !s.nonObj {
		s.nonObj, ch = true, true
	}
	for f := range o.efids {
		if !s.efids[f] {
			s.efids[f] = true
			ch = true
		}
	}
	for q := range o.eparams {
		if !s.eparams[q] {
			s.eparams[q] = true
			ch = true
		}
	}
	if o.eelem && !s.eelem {
		s.eelem, ch = true, true
	}
	if o.eobj && !s.eobj {
		s.eobj, ch = true, true
	}
	if o.eany && !s.eany {
		s.eany, ch = true, true
	}
	for r := range o.cellObjs {
		if !s.cellObjs[r] {
			s.cellObjs[r] = true
			ch = true
		}
	}
	if o.nonCell && !s.nonCell {
		s.nonCell, ch = true, true
	}
	if o.elem && !s.elem {
		s.elem, ch = true, true
	}
	if o.obj && !s.obj {
		s.obj, ch = true, true
	}
	if o.any && !s.any {
		s.any, ch = true, true
	}
	return ch
}

type modset struct {
	real    map[string]*writeShape // writes to objects that may pre-exist the call
	fresh   map[string]bool        // keys written (only) at objects allocated inside
	unknown []string               // calls that could not be resolved
	spawns  bool                   // starts goroutines (whose effects are not part of the summary)
}

func newModset() *modset {
	return &modset{real: map[string]*writeShape{}, fresh: map[string]bool{}}
}

func (m *modset) shape(key string) *writeShape {
	s, ok := m.real[key]
	if !ok {
		s = newShape()
		m.real[key] = s
	}
	return s
}

func (m *modset) merge(o *modset) bool {
	ch := false
	for k, s := range o.real {
		if _, had := m.real[k]; !had {
			ch = true
		}
		if m.shape(k).merge(s) {
			ch = true
		}
	}
	for k := range o.fresh {
		if !m.fresh[k] {
			m.fresh[k] = true
			ch = true
		}
	}
	if o.spawns && !m.spawns {
		m.spawns = true
		ch = true
	}
	for _, u := range o.unknown {
		found := false
		for _, x := range m.unknown {
			if x == u {
				found = true
			}
		}
		if !found {
			m.unknown = append(m.unknown, u)
			ch = true
		}
	}
	return ch
}

func (m *modset) String() string {
	var parts []string
	for _, k := range sortedKeys(m.real) {
		s := m.real[k]
		var sh []string
		var fs []int
		for f := range s.fids {
			fs = append(fs, f)
		}
		sort.Ints(fs)
		for _, f := range fs {
			sh = append(sh, fmt.Sprintf("f%d", f))
		}
		var rs []string
		for r := range s.roots {
			rs = append(rs, "@"+r.Name())
		}
		sort.Strings(rs)
		sh = append(sh, rs...)
		if s.elem {
			sh = append(sh, "elem")
		}
		if s.obj {
			sh = append(sh, "obj")
		}
		if s.any {
			sh = append(sh, "any")
		}
		if strings.HasPrefix(k, "F_") {
			var es []string
			for _, f := range sortedInts(s.efids) {
				es = append(es, fmt.Sprintf("in-f%d", f))
			}
			for q := range s.eparams {
				es = append(es, "in-@"+q.Name())
			}
			sort.Strings(es)
			if s.eelem {
				es = append(es, "in-elem")
			}
			if s.eobj {
				es = append(es, "in-obj")
			}
			if s.eany {
				es = append(es, "in-any")
			}
			sh = append(sh, es...)
		}
		parts = append(parts, k+"{"+strings.Join(sh, ",")+"}")
	}
	for _, k := range sortedKeys(m.fresh) {
		if _, ok := m.real[k]; !ok {
			parts = append(parts, k+"{fresh}")
		}
	}
	if len(m.unknown) > 0 {
		parts = append(parts, "UNKNOWN:"+strings.Join(m.unknown, ";"))
	}
	return strings.Join(parts, " ")
}

type rootKind int

const (
	rAny rootKind = iota
	rFresh
	rValue
)

type resKind struct {
	kind  rootKind
	param int // for rValue in summaries: index of the parameter the result aliases
}

// modAnalysis computes mod-sets for all module functions.
type modAnalysis struct {
	w        *world
	c        *smtctx // only used for key naming (sorts)
	sets     map[*ssa.Function]*modset
	keyTypes map[string]types.Type
	results  map[*ssa.Function][]resKind // per result: fresh / alias of parameter / unknown
	escapes  map[*ssa.Function]*escapeInfo
	keyFids  map[string]int
}

func (w *world) computeModsets() *modAnalysis {
	ma := &modAnalysis{w: w, c: newSMT(w), sets: map[*ssa.Function]*modset{}, keyTypes: map[string]types.Type{}, results: map[*ssa.Function][]resKind{}, keyFids: map[string]int{}}
	var fns []*ssa.Function
	for _, n := range sortedKeys(w.funcs) {
		fns = append(fns, w.funcs[n])
		ma.sets[w.funcs[n]] = newModset()
	}
	// result summaries first (optimistic start: fresh; iterate downwards)
	for _, fn := range fns {
		n := fn.Signature.Results().Len()
		rk := make([]resKind, n)
		for i := range rk {
			rk[i] = resKind{kind: rFresh}
		}
		ma.results[fn] = rk
	}
	for changed := true; changed; {
		changed = false
		for _, fn := range fns {
			if fn.Blocks == nil {
				continue
			}
			for _, b := range fn.Blocks {
				ret, ok := b.Instrs[len(b.Instrs)-1].(*ssa.Return)
				if !ok {
					continue
				}
				for i, r := range ret.Results {
					k, v := ma.valueRoot(r, nil, 0)
					nk := resKind{kind: k}
					if k == rValue {
						if p, ok := v.(*ssa.Parameter); ok && p.Parent() == fn {
							nk.param = paramIndex(p)
						} else {
							nk.kind = rAny
						}
					}
					if isConstNil(r) {
						continue
					}
					cur := ma.results[fn][i]
					merged := mergeRes(cur, nk)
					if merged != cur {
						ma.results[fn][i] = merged
						changed = true
					}
				}
			}
		}
	}
	freshResultCall = func(call *ssa.Call) bool {
		if call.Call.Signature().Results().Len() != 1 {
			return false
		}
		fs, unk := ma.callees(call.Common())
		if unk != "" || len(fs) == 0 {
			return false
		}
		for _, f := range fs {
			rk, ok := ma.results[f]
			if !ok || len(rk) != 1 || rk[0].kind != rFresh || f.Blocks == nil {
				return false
			}
		}
		return true
	}
	for changed := true; changed; {
		changed = false
		for _, fn := range fns {
			ms := ma.region(fn, nil)
			if ma.sets[fn].merge(ms) {
				changed = true
			}
		}
	}
	return ma
}

func isConstNil(v ssa.Value) bool {
	c, ok := v.(*ssa.Const)
	return ok && c.Value == nil
}

func mergeRes(a, b resKind) resKind {
	if a.kind == rFresh {
		return b
	}
	if b.kind == rFresh {
		return a
	}
	if a.kind == rValue && b.kind == rValue && a.param == b.param {
		return a
	}
	return resKind{kind: rAny}
}

func paramIndex(p *ssa.Parameter) int {
	for i, q := range p.Parent().Params {
		if q == p {
			return i
		}
	}
	return -1
}

// valueRoot classifies where a reference value comes from: a fresh allocation inside the region, a specific
// SSA value defined outside it (parameter, earlier allocation, ...), or unknown.
func (ma *modAnalysis) valueRoot(v ssa.Value, in map[*ssa.BasicBlock]bool, depth int) (rootKind, ssa.Value) {
	if depth > 12 {
		return rAny, nil
	}
	inRegion := func(i ssa.Instruction) bool { return in == nil || in[i.Block()] }
	switch x := v.(type) {
	case *ssa.Parameter:
		return rValue, x
	case *ssa.Alloc:
		if inRegion(x) {
			return rFresh, nil
		}
		return rValue, x
	case *ssa.MakeSlice:
		if inRegion(x) {
			return rFresh, nil
		}
		return rValue, x
	case *ssa.MakeMap:
		if inRegion(x) {
			return rFresh, nil
		}
		return rValue, x
	case *ssa.FieldAddr:
		return ma.valueRoot(x.X, in, depth+1)
	case *ssa.IndexAddr:
		return ma.valueRoot(x.X, in, depth+1)
	case *ssa.Slice:
		return ma.valueRoot(x.X, in, depth+1)
	case *ssa.ChangeType:
		return ma.valueRoot(x.X, in, depth+1)
	case *ssa.MakeInterface:
		return ma.valueRoot(x.X, in, depth+1)
	case *ssa.Phi:
		var kind rootKind = rFresh
		var val ssa.Value
		for _, e := range x.Edges {
			if e == v || isConstNil(e) {
				continue
			}
			k, r := ma.valueRoot(e, in, depth+1)
			switch {
			case k == rAny:
				return rAny, nil
			case k == rValue && kind == rValue && r != val:
				return rAny, nil
			case k == rValue:
				kind, val = rValue, r
			}
		}
		return kind, val
	case *ssa.Call:
		if b, ok := x.Call.Value.(*ssa.Builtin); ok && b.Name() == "append" {
			if inRegion(x) {
				return rFresh, nil
			}
			return rValue, x
		}
		if x.Call.Signature().Results().Len() == 1 {
			return ma.callResultRoot(x, 0, in, depth)
		}
		return rAny, nil
	case *ssa.Extract:
		if call, ok := x.Tuple.(*ssa.Call); ok {
			return ma.callResultRoot(call, x.Index, in, depth)
		}
		return rAny, nil
	}
	return rAny, nil
}

func (ma *modAnalysis) callResultRoot(call *ssa.Call, idx int, in map[*ssa.BasicBlock]bool, depth int) (rootKind, ssa.Value) {
	fns, unk := ma.callees(call.Common())
	if unk != "" || len(fns) == 0 {
		return rAny, nil
	}
	var kind rootKind = rFresh
	var val ssa.Value
	for _, f := range fns {
		rk, ok := ma.results[f]
		if !ok || idx >= len(rk) {
			return rAny, nil
		}
		switch rk[idx].kind {
		case rAny:
			return rAny, nil
		case rFresh:
			if !(in == nil || in[call.Block()]) {
				// allocated by a call outside the region: a specific pre-existing value
				if kind == rValue && val != ssa.Value(call) {
					return rAny, nil
				}
				kind, val = rValue, call
			}
		case rValue:
			args := callArgs(call.Common())
			if rk[idx].param >= len(args) {
				return rAny, nil
			}
			k, r := ma.valueRoot(args[rk[idx].param], in, depth+1)
			switch {
			case k == rAny:
				return rAny, nil
			case k == rValue && kind == rValue && r != val:
				return rAny, nil
			case k == rValue:
				kind, val = rValue, r
			}
		}
	}
	return kind, val
}

// callArgs returns the actual arguments aligned with the callee's parameters (receiver first for invokes).
func callArgs(c *ssa.CallCommon) []ssa.Value {
	if c.IsInvoke() {
		return append([]ssa.Value{c.Value}, c.Args...)
	}
	if mc, ok := c.Value.(*ssa.MakeClosure); ok {
		return append(append([]ssa.Value{}, c.Args...), mc.Bindings...)
	}
	return c.Args
}

func (ma *modAnalysis) recordStore(ms *modset, st *ssa.Store, addr ssa.Value, t types.Type, in map[*ssa.BasicBlock]bool) {
	kind, root := ma.valueRoot(addr, in, 0)
	localObj := false
	if kind == rValue && st != nil && isLocalAllocation(root) && ma.escape(st.Parent()).safeStore(st, root) {
		localObj = true
	}
	for _, lf := range ma.c.leaves(t) {
		// which array(s) the written cell lives in
		var keys []string
		elem, objc := false, false
		if len(lf.fids) > 0 {
			keys = []string{ma.fieldKey(lf.fids[len(lf.fids)-1])}
		} else {
			switch a := addr.(type) {
			case *ssa.FieldAddr:
				st := a.X.Type().Underlying().(*types.Pointer).Elem()
				keys = []string{ma.fieldKey(ma.w.fieldID(st, a.Field))}
			case *ssa.IndexAddr:
				keys, elem = []string{ma.cellKey(lf.typ)}, true
			case *ssa.Alloc:
				keys, objc = []string{ma.cellKey(lf.typ)}, true
			default:
				for _, fid := range ma.c.candidateFieldKeys(lf.typ) {
					keys = append(keys, ma.fieldKey(fid))
				}
				keys = append(keys, ma.cellKey(lf.typ))
			}
		}
		for _, key := range keys {
			if kind == rFresh {
				ms.fresh[key] = true
				continue
			}
			sh := ms.shape(key)
			if strings.HasPrefix(key, "F_") {
				// where does the struct holding this field live?
				switch {
				case len(lf.fids) >= 2:
					sh.efids[lf.fids[len(lf.fids)-2]] = true
				case len(lf.fids) == 1:
					ma.embedding(sh, addr, 0)
				default:
					if fa, ok := addr.(*ssa.FieldAddr); ok {
						ma.embedding(sh, fa.X, 0)
					} else {
						sh.eany = true
					}
				}
			}
			if localObj {
				sh.objs[root] = true
			} else {
				sh.nonObj = true
			}
			if kind == rValue && st != nil && isLocalAllocation(root) {
				sh.cellObjs[root] = true
			} else {
				sh.nonCell = true
			}
			switch {
			case strings.HasPrefix(key, "F_"):
				sh.any = true // the whole field array gets a new version
			case elem:
				sh.elem = true
			case objc:
				sh.obj = true
			default:
				sh.any = true
			}
		}
	}
}

// embedding classifies the address v of a struct by the last step of its path.
func (ma *modAnalysis) embedding(sh *writeShape, v ssa.Value, depth int) {
	if depth > 6 {
		sh.eany = true
		return
	}
	switch x := v.(type) {
	case *ssa.FieldAddr:
		st := x.X.Type().Underlying().(*types.Pointer).Elem()
		sh.efids[ma.w.fieldID(st, x.Field)] = true
	case *ssa.IndexAddr:
		sh.eelem = true
	case *ssa.Alloc:
		sh.eobj = true
	case *ssa.Parameter:
		sh.eparams[x] = true
	case *ssa.Phi:
		for _, e := range x.Edges {
			ma.embedding(sh, e, depth+1)
		}
	case *ssa.ChangeType:
		ma.embedding(sh, x.X, depth+1)
	default:
		sh.eany = true
	}
}

func (ma *modAnalysis) recordMapWrite(ms *modset, m ssa.Value, in map[*ssa.BasicBlock]bool) {
	md, mv, mc := ma.mapKeys(m.Type())
	kind, val := ma.valueRoot(m, in, 0)
	for _, k := range []string{md, mv, mc} {
		switch kind {
		case rFresh:
			ms.fresh[k] = true
		case rValue:
			ms.shape(k).roots[val] = true
		default:
			ms.shape(k).any = true
			ms.shape(k).nonCell = true
		}
	}
}

func (ma *modAnalysis) callees(call *ssa.CallCommon) (fns []*ssa.Function, unknown string) {
	if call.IsInvoke() {
		recv := call.Value.Type()
		named, _ := recv.(*types.Named)
		if named == nil || named.Obj().Pkg() == nil || !ma.w.inModule(named.Obj().Pkg().Path()) {
			return nil, "" // external interface (error.Error, ...): assumed pure
		}
		key := named.Obj().Pkg().Path() + "." + named.Obj().Name()
		for _, impl := range ma.w.impls[key] {
			m := ma.w.prog.LookupMethod(types.NewPointer(impl), call.Method.Pkg(), call.Method.Name())
			if m != nil {
				fns = append(fns, m)
			}
		}
		return fns, ""
	}
	switch v := call.Value.(type) {
	case *ssa.Function:
		return []*ssa.Function{v}, ""
	case *ssa.MakeClosure:
		return []*ssa.Function{v.Fn.(*ssa.Function)}, ""
	case *ssa.Builtin:
		return nil, ""
	}
	if ma.w.externalFuncValue(call.Value) {
		return nil, ""
	}
	if sig, ok := call.Value.Type().Underlying().(*types.Signature); ok {
		if cands, complete := ma.w.funcValueCandidates(sig); complete && len(cands) > 0 {
			return cands, ""
		}
	}
	return nil, "dynamic call " + call.Value.Name()
}

// mergeCallee adds the effects of callee summary cs at a call site: parameter roots are translated to the roots of
// the actual arguments.
func (ma *modAnalysis) mergeCallee(ms *modset, cs *modset, call *ssa.CallCommon, in map[*ssa.BasicBlock]bool) {
	args := callArgs(call)
	for k, s := range cs.real {
		sh := ms.shape(k)
		for f := range s.fids {
			sh.fids[f] = true
		}
		sh.elem = sh.elem || s.elem
		sh.obj = sh.obj || s.obj
		sh.any = sh.any || s.any
		if strings.HasPrefix(k, "H_") || strings.HasPrefix(k, "F_") {
			sh.nonObj = true
			sh.nonCell = true
		}
		for f := range s.efids {
			sh.efids[f] = true
		}
		sh.eelem = sh.eelem || s.eelem
		sh.eobj = sh.eobj || s.eobj
		sh.eany = sh.eany || s.eany
		for q := range s.eparams {
			if idx := paramIndex(q); idx >= 0 && idx < len(args) && !call.IsInvoke() {
				ma.embedding(sh, args[idx], 0)
			} else {
				sh.eany = true // (the receiver of an interface call is an interface value, not an address we can classify)
			}
		}
		for r := range s.roots {
			p, ok := r.(*ssa.Parameter)
			idx := -1
			if ok {
				idx = paramIndex(p)
			}
			if idx < 0 || idx >= len(args) {
				sh.any = true
				continue
			}
			kind, val := ma.valueRoot(args[idx], in, 0)
			switch kind {
			case rFresh:
				ms.fresh[k] = true
			case rValue:
				sh.roots[val] = true
			default:
				sh.any = true
			}
		}
		// a shape with nothing in it (can happen when all roots were fresh) is dropped
		if !sh.any && !sh.elem && !sh.obj && len(sh.fids) == 0 && len(sh.roots) == 0 {
			delete(ms.real, k)
		}
	}
	for k := range cs.fresh {
		ms.fresh[k] = true
	}
	for _, u := range cs.unknown {
		ms.unknown = append(ms.unknown, u)
	}
	if cs.spawns {
		ms.spawns = true
	}
}

// region computes the direct+transitive writes of a set of blocks of fn (nil = all). For the whole-function
// summary only parameter roots are kept (other pre-existing values cannot exist).
func (ma *modAnalysis) region(fn *ssa.Function, in map[*ssa.BasicBlock]bool) *modset {
	ms := newModset()
	c := ma.c
	for _, b := range fn.Blocks {
		if in != nil && !in[b] {
			continue
		}
		for _, ins := range b.Instrs {
			switch x := ins.(type) {
			case *ssa.Store:
				if a := rootAlloc(x.Addr); a != nil && isRegAlloc(a) {
					continue
				}
				ma.recordStore(ms, x, x.Addr, x.Val.Type(), in)
			case *ssa.Alloc:
				if isRegAlloc(x) {
					continue
				}
				ma.freshLeaves(ms, x.Type().Underlying().(*types.Pointer).Elem())
				if at, ok := x.Type().Underlying().(*types.Pointer).Elem().Underlying().(*types.Array); ok {
					ma.freshLeaves(ms, at.Elem())
				}
			case *ssa.MakeSlice:
				ma.freshLeaves(ms, x.Type().Underlying().(*types.Slice).Elem())
			case *ssa.MakeMap:
				md, mv, mc := ma.mapKeys(x.Type())
				ms.fresh[md], ms.fresh[mv], ms.fresh[mc] = true, true, true
			case *ssa.MapUpdate:
				ma.recordMapWrite(ms, x.Map, in)
			case *ssa.Select:
				for _, sc := range x.States {
					if sc.Dir == types.SendOnly {
						if _, ok := ma.w.db.Ghosts["sent"]; ok {
							ms.shape("G_sent").any = true
							ms.shape("G_sent").nonCell = true
						}
						for name := range ma.w.db.Ghosts {
							if strings.HasPrefix(name, "lastSent") {
								ms.shape("G_" + name).any = true
								ms.shape("G_" + name).nonCell = true
							}
						}
					}
				}
			case *ssa.Send:
				if _, ok := ma.w.db.Ghosts["sent"]; ok {
					ms.shape("G_sent").any = true
					ms.shape("G_sent").nonCell = true
				}
				for name := range ma.w.db.Ghosts {
					if strings.HasPrefix(name, "lastSent") {
						ms.shape("G_" + name).any = true
						ms.shape("G_" + name).nonCell = true
					}
				}
			case *ssa.Go:
				// a spawned goroutine runs on objects handed over to it (ownership discipline, C13 `moves`/`owned`):
				// its writes are not effects of the spawning call as seen by the spawner's sequential reasoning
				ms.spawns = true
			case ssa.CallInstruction:
				call := x.Common()
				if b, ok := call.Value.(*ssa.Builtin); ok {
					switch b.Name() {
					case "append":
						ma.freshLeaves(ms, call.Args[0].Type().Underlying().(*types.Slice).Elem())
					case "delete":
						ma.recordMapWrite(ms, call.Args[0], in)
					case "copy":
						for _, lf := range c.leaves(call.Args[0].Type().Underlying().(*types.Slice).Elem()) {
							ms.shape(ma.cellKey(lf.typ)).elem = true
							ms.shape(ma.cellKey(lf.typ)).nonCell = true
						}
					}
					continue
				}
				fns, unk := ma.callees(call)
				if unk != "" {
					ms.unknown = append(ms.unknown, unk)
				}
				for _, f := range fns {
					if ct := ma.w.db.Contracts[f.String()]; ct != nil && ct.External {
						// assumed contract (also used to cut the analysis at module functions treated as opaque)
						for _, k := range ct.Modifies {
							ms.shape(ma.w.db.modKey(k)).any = true
							ms.shape(ma.w.db.modKey(k)).nonCell = true
						}
						for _, em := range ct.Emits {
							ms.shape("G_" + em.Label).any = true
							ms.shape("G_" + em.Label).nonCell = true
						}
						continue
					}
					if ct := ma.w.db.Contracts[f.String()]; ct != nil {
						for _, em := range ct.Emits {
							ms.shape("G_" + em.Label).any = true
							ms.shape("G_" + em.Label).nonCell = true
						}
					}
					if cs, ok := ma.sets[f]; ok {
						ma.mergeCallee(ms, cs, call, in)
					} else if ct := ma.w.db.Contracts[f.String()]; ct != nil {
						for _, k := range ct.Modifies {
							ms.shape(ma.w.db.modKey(k)).any = true
							ms.shape(ma.w.db.modKey(k)).nonCell = true
						}
					}
				}
			}
		}
	}
	// dedupe unknowns
	seen := map[string]bool{}
	var unk []string
	for _, u := range ms.unknown {
		if !seen[u] {
			seen[u] = true
			unk = append(unk, u)
		}
	}
	ms.unknown = unk
	return ms
}

func isRegAlloc(a *ssa.Alloc) bool {
	if _, isArr := a.Type().Underlying().(*types.Pointer).Elem().Underlying().(*types.Array); isArr {
		return false
	}
	return addrOnlyLocal(a, 0)
}

func (ma *modAnalysis) cellKey(t types.Type) string {
	k := ma.c.cellKey(t)
	ma.keyTypes[k] = t
	return k
}

func (ma *modAnalysis) mapKeys(t types.Type) (string, string, string) {
	md, mv, mc := ma.c.mapKeys(t)
	ma.keyTypes[md], ma.keyTypes[mv], ma.keyTypes[mc] = t, t, t
	return md, mv, mc
}

// modKey maps a name in a modifies clause (a ghost variable or a raw heap key) to the heap key.
func (db *contractDB) modKey(k string) string {
	if _, ok := db.Ghosts[k]; ok {
		return "G_" + k
	}
	return k
}

// ---------------------------------------------------------------------------------------------
// Escape information: for every local allocation (Alloc, MakeSlice, append result) the instructions through
// which a reference to it may leave the function's registers (stored to memory, passed to a call, returned,
// boxed, merged by a phi). A store into the object is "safe" if no such instruction can execute before it.

type escapeInfo struct {
	fn      *ssa.Function
	escapes map[ssa.Value][]ssa.Instruction
	reach   map[*ssa.BasicBlock]map[*ssa.BasicBlock]bool
}

func isLocalAllocation(v ssa.Value) bool {
	switch x := v.(type) {
	case *ssa.Alloc, *ssa.MakeSlice:
		return true
	case *ssa.Call:
		if b, ok := x.Call.Value.(*ssa.Builtin); ok {
			return b.Name() == "append"
		}
		return freshResultCall != nil && freshResultCall(x)
	}
	return false
}

// freshResultCall is set by the analysis: calls of module functions whose single result is always a fresh object.
var freshResultCall func(*ssa.Call) bool

func (ma *modAnalysis) escape(fn *ssa.Function) *escapeInfo {
	if ma.escapes == nil {
		ma.escapes = map[*ssa.Function]*escapeInfo{}
	}
	if ei, ok := ma.escapes[fn]; ok {
		return ei
	}
	ei := &escapeInfo{fn: fn, escapes: map[ssa.Value][]ssa.Instruction{}, reach: map[*ssa.BasicBlock]map[*ssa.BasicBlock]bool{}}
	ma.escapes[fn] = ei
	for _, b := range fn.Blocks {
		for _, ins := range b.Instrs {
			v, ok := ins.(ssa.Value)
			if !ok || !isLocalAllocation(v) {
				continue
			}
			ei.collect(v, v, 0)
		}
	}
	// parameters: when the function is inlined an argument may be a local object of the caller
	for _, p := range fn.Params {
		ei.collect(p, p, 0)
	}
	return ei
}

// collect records the escaping uses of the object obj through the derived value v.
func (ei *escapeInfo) collect(obj, v ssa.Value, depth int) {
	refs := v.Referrers()
	if refs == nil || depth > 6 {
		return
	}
	for _, r := range *refs {
		switch x := r.(type) {
		case *ssa.FieldAddr:
			if x.X == v {
				ei.collect(obj, x, depth+1)
			}
		case *ssa.IndexAddr:
			if x.X == v {
				ei.collect(obj, x, depth+1)
			}
		case *ssa.Slice:
			if x.X == v {
				ei.collect(obj, x, depth+1)
			}
		case *ssa.MakeInterface:
			ei.collect(obj, x, depth+1) // the reference is still only in registers
		case *ssa.ChangeInterface:
			ei.collect(obj, x, depth+1)
		case *ssa.ChangeType:
			ei.collect(obj, x, depth+1)
		case *ssa.Return:
			ei.escapes[obj] = append(ei.escapes[obj], x)
		case *ssa.UnOp:
			// load: not an escape
		case *ssa.Store:
			if x.Val == v {
				ei.escapes[obj] = append(ei.escapes[obj], x)
			}
		case *ssa.DebugRef:
		case *ssa.Call:
			if b, ok := x.Call.Value.(*ssa.Builtin); ok && (b.Name() == "len" || b.Name() == "cap") {
				continue
			}
			ei.escapes[obj] = append(ei.escapes[obj], x)
		default:
			ei.escapes[obj] = append(ei.escapes[obj], r)
		}
	}
}

func (ei *escapeInfo) reachable(from *ssa.BasicBlock) map[*ssa.BasicBlock]bool {
	if r, ok := ei.reach[from]; ok {
		return r
	}
	r := map[*ssa.BasicBlock]bool{}
	stack := append([]*ssa.BasicBlock{}, from.Succs...)
	for len(stack) > 0 {
		b := stack[len(stack)-1]
		stack = stack[:len(stack)-1]
		if r[b] {
			continue
		}
		r[b] = true
		stack = append(stack, b.Succs...)
	}
	ei.reach[from] = r
	return r
}

// safeStore: no escaping use of obj can execute before the store st.
func (ei *escapeInfo) safeStore(st ssa.Instruction, obj ssa.Value) bool {
	sb := st.Block()
	for _, e := range ei.escapes[obj] {
		eb := e.Block()
		if ei.reachable(eb)[sb] {
			return false
		}
		if eb == sb {
			for _, ins := range sb.Instrs {
				if ins == e {
					return false // e comes first
				}
				if ins == st {
					break
				}
			}
		}
	}
	return true
}

func (ma *modAnalysis) fieldKey(fid int) string {
	k, t, _ := ma.c.fieldKeyByID(fid)
	ma.keyTypes[k] = t
	ma.keyFids[k] = fid
	return k
}

// freshLeaves records the arrays in which the cells of a freshly allocated value of type t live.
func (ma *modAnalysis) freshLeaves(ms *modset, t types.Type) {
	for _, lf := range ma.c.leaves(t) {
		if len(lf.fids) > 0 {
			ms.fresh[ma.fieldKey(lf.fids[len(lf.fids)-1])] = true
		} else {
			ms.fresh[ma.cellKey(lf.typ)] = true
		}
	}
}
