package main

import (
	"bytes"
	"fmt"
	"os"
	"os/exec"
	"path/filepath"
	"strings"
)

// Grammar assumptions. The printers are proved to print canonically (pp); that the canonical text parses back to the
// same tree rests on the grammar: which operators share a precedence level and how they associate. The parser driver
// is generated code (tables), outside the reach of contracts, so the assumption is pinned mechanically instead:
//   - module/grammar/generated: the checked-in driver is byte for byte what the generator makes of the grammar file;
//   - module/grammar/precedence: the grammar's associativity/precedence declarations are exactly the ones the bracket
//     rule of pp was written against.
func (e *engine) grammarObls(prop string, g *grammarDecl) []*obligation {
	var out []*obligation
	pos := fmt.Sprintf("%s:%d", relPath(g.File), g.Line)
	// precedence lines
	o := &obligation{Func: "module", Name: "module/grammar/precedence", Kind: "frame", Label: prop + ".grammar", Props: []string{prop}, Pos: pos,
		Clause: "the %left/%right/%nonassoc declarations of " + g.Source + " are, in order: " + strings.Join(g.Precedence, " | ")}
	src, err := os.ReadFile(filepath.Join(e.w.repo, g.Source))
	if err != nil {
		o.Status, o.Output = "refuted", "grammar scan: "+err.Error()
	} else {
		var have []string
		for _, ln := range strings.Split(string(src), "\n") {
			t := strings.TrimSpace(ln)
			if strings.HasPrefix(t, "%left") || strings.HasPrefix(t, "%right") || strings.HasPrefix(t, "%nonassoc") || strings.HasPrefix(t, "%precedence") {
				have = append(have, strings.Join(strings.Fields(t), " "))
			}
			if t == "%%" {
				break
			}
		}
		if strings.Join(have, "\n") == strings.Join(g.Precedence, "\n") {
			o.Status, o.Solver, o.Output = "discharged", "grammar scan", "grammar scan: declarations as stated"
		} else {
			o.Status, o.Output = "refuted", "grammar scan: the grammar declares: "+strings.Join(have, " | ")
		}
	}
	if len(g.Precedence) > 0 {
		out = append(out, o)
	}
	// generated driver
	o2 := &obligation{Func: "module", Name: "module/grammar/generated", Kind: "frame", Label: prop + ".grammar", Props: []string{prop}, Pos: pos,
		Clause: g.Generated + " is what `" + strings.Join(g.Command, " ") + "` generates from " + g.Source}
	func() {
		tmp, err := os.MkdirTemp("", "gritsvc-grammar-")
		if err != nil {
			o2.Status, o2.Output = "refuted", "generator: "+err.Error()
			return
		}
		defer os.RemoveAll(tmp)
		if err := os.MkdirAll(filepath.Join(tmp, filepath.Dir(g.Source)), 0o755); err != nil {
			o2.Status, o2.Output = "refuted", "generator: "+err.Error()
			return
		}
		os.MkdirAll(filepath.Join(tmp, filepath.Dir(g.Generated)), 0o755)
		if src == nil {
			o2.Status, o2.Output = "refuted", "generator: no grammar file"
			return
		}
		os.WriteFile(filepath.Join(tmp, g.Source), src, 0o644)
		tool := filepath.Join(e.verif, "bin", g.Command[0])
		if exe, err := os.Executable(); err == nil {
			tool = filepath.Join(filepath.Dir(exe), g.Command[0]) // built next to this binary by MANIFEST.setup_cmd
		}
		cmd := exec.Command(tool, g.Command[1:]...)
		cmd.Dir = tmp
		outb, err := cmd.CombinedOutput()
		if err != nil {
			o2.Status, o2.Output = "refuted", "generator failed: "+err.Error()+": "+string(outb)
			return
		}
		want, err1 := os.ReadFile(filepath.Join(tmp, g.Generated))
		have, err2 := os.ReadFile(filepath.Join(e.w.repo, g.Generated))
		if err1 != nil || err2 != nil {
			o2.Status, o2.Output = "refuted", fmt.Sprintf("generator: %v %v", err1, err2)
			return
		}
		if bytes.Equal(want, have) {
			o2.Status, o2.Solver, o2.Output = "discharged", "generator rerun", "generator rerun: identical ("+strings.TrimSpace(lastLine(string(outb)))+")"
		} else {
			o2.Status, o2.Output = "refuted", "generator rerun: the checked-in file differs from the generator's output"
		}
	}()
	out = append(out, o2)
	if g.Values {
		out = append(out, e.grammarValueObl(prop, g))
	}
	out = append(out, e.grammarNonEmptyObls(prop, g)...)
	return out
}

func lastLine(s string) string {
	ls := strings.Split(strings.TrimSpace(s), "\n")
	return ls[len(ls)-1]
}

// ---- grammar actions: nothing the parser has built is dropped --------------------------------------------------

type yaccAlt struct {
	lhs     string
	symbols []string
	action  string
	line    int
}

// parseYaccRules reads the rules section of a yacc grammar: for every alternative its symbols and its (last) action.
func parseYaccRules(src string) []yaccAlt {
	i := strings.Index(src, "\n%%")
	if i < 0 {
		return nil
	}
	startLine := strings.Count(src[:i+3], "\n") + 1
	body := src[i+3:]
	if j := strings.Index(body, "\n%%"); j >= 0 {
		body = body[:j]
	}
	var alts []yaccAlt
	line := startLine
	pos := 0
	lhs := ""
	var cur *yaccAlt
	flush := func() {
		if cur != nil {
			alts = append(alts, *cur)
			cur = nil
		}
	}
	isIdent := func(c byte) bool {
		return c == '_' || c == '.' || (c >= 'a' && c <= 'z') || (c >= 'A' && c <= 'Z') || (c >= '0' && c <= '9')
	}
	var pendingIdent string
	for pos < len(body) {
		c := body[pos]
		switch {
		case c == '\n':
			line++
			pos++
		case c == ' ' || c == '\t' || c == '\r':
			pos++
		case strings.HasPrefix(body[pos:], "/*"):
			end := strings.Index(body[pos+2:], "*/")
			if end < 0 {
				pos = len(body)
				break
			}
			line += strings.Count(body[pos:pos+2+end+2], "\n")
			pos += 2 + end + 2
		case strings.HasPrefix(body[pos:], "//"):
			for pos < len(body) && body[pos] != '\n' {
				pos++
			}
		case c == '\'':
			end := pos + 1
			for end < len(body) && body[end] != '\'' {
				if body[end] == '\\' {
					end++
				}
				end++
			}
			if cur != nil {
				cur.symbols = append(cur.symbols, body[pos:end+1])
			}
			pos = end + 1
		case c == '{':
			depth, end := 0, pos
			for end < len(body) {
				switch body[end] {
				case '{':
					depth++
				case '}':
					depth--
				case '"':
					end++
					for end < len(body) && body[end] != '"' {
						if body[end] == '\\' {
							end++
						}
						end++
					}
				case '\'':
					if end+2 < len(body) && (body[end+2] == '\'' || (body[end+1] == '\\' && end+3 < len(body) && body[end+3] == '\'')) {
						if body[end+1] == '\\' {
							end += 3
						} else {
							end += 2
						}
					}
				case '\n':
					line++
				}
				end++
				if depth == 0 {
					break
				}
			}
			if cur != nil {
				cur.action = body[pos:end]
			}
			pos = end
		case c == ':':
			flush()
			lhs = pendingIdent
			pendingIdent = ""
			cur = &yaccAlt{lhs: lhs, line: line}
			pos++
		case c == '|':
			flush()
			cur = &yaccAlt{lhs: lhs, line: line}
			pos++
		case c == ';':
			flush()
			lhs = ""
			pos++
		case c == '%':
			// %prec TOKEN
			end := pos + 1
			for end < len(body) && isIdent(body[end]) {
				end++
			}
			for end < len(body) && (body[end] == ' ' || body[end] == '\t') {
				end++
			}
			for end < len(body) && isIdent(body[end]) {
				end++
			}
			pos = end
		case isIdent(c):
			end := pos
			for end < len(body) && isIdent(body[end]) {
				end++
			}
			id := body[pos:end]
			// an identifier followed by ':' starts a rule; otherwise it is a symbol of the current alternative
			k := end
			for k < len(body) && (body[k] == ' ' || body[k] == '\t' || body[k] == '\n' || body[k] == '\r') {
				k++
			}
			if k < len(body) && body[k] == ':' {
				pendingIdent = id
			} else if cur != nil {
				cur.symbols = append(cur.symbols, id)
			}
			pos = end
		default:
			pos++
		}
	}
	flush()
	return alts
}

// grammarValueObl: every alternative's action uses the semantic value of every nonterminal on its right-hand side
// (`$k`), so nothing the parser has already built for a part of the text is dropped on the way up. Alternatives listed
// in `except` (LHS/ordinal) are exempt; the contract says why.
func (e *engine) grammarValueObl(prop string, g *grammarDecl) *obligation {
	pos := fmt.Sprintf("%s:%d", relPath(g.File), g.Line)
	o := &obligation{Func: "module", Name: "module/grammar/values", Kind: "frame", Label: prop + ".grammar", Props: []string{prop}, Pos: pos,
		Clause: "in " + g.Source + " every alternative's action uses the value ($k) of every nonterminal on its right-hand side" + map[bool]string{true: " (exempt: " + strings.Join(g.ValueExcept, ", ") + ")", false: ""}[len(g.ValueExcept) > 0]}
	src, err := os.ReadFile(filepath.Join(e.w.repo, g.Source))
	if err != nil {
		o.Status, o.Output = "refuted", "grammar scan: "+err.Error()
		return o
	}
	alts := parseYaccRules(string(src))
	if len(alts) == 0 {
		o.Status, o.Output = "refuted", "grammar scan: no rules found"
		return o
	}
	nonterm := map[string]bool{}
	for _, a := range alts {
		nonterm[a.lhs] = true
	}
	except := map[string]bool{}
	for _, x := range g.ValueExcept {
		except[x] = true
	}
	ord := map[string]int{}
	var bad []string
	for _, a := range alts {
		ord[a.lhs]++
		key := fmt.Sprintf("%s/%d", a.lhs, ord[a.lhs])
		if except[key] {
			continue
		}
		for i, s := range a.symbols {
			if !nonterm[s] {
				continue
			}
			if a.action == "" && i == 0 {
				continue // default action $$ = $1
			}
			ref := fmt.Sprintf("$%d", i+1)
			used := false
			for k := strings.Index(a.action, ref); k >= 0; {
				after := k + len(ref)
				if after >= len(a.action) || a.action[after] < '0' || a.action[after] > '9' {
					used = true
					break
				}
				n := strings.Index(a.action[after:], ref)
				if n < 0 {
					break
				}
				k = after + n
			}
			if !used {
				bad = append(bad, fmt.Sprintf("%s (alternative %d, line %d): the value of %s (%s) is not used", a.lhs, ord[a.lhs], a.line, s, ref))
			}
		}
	}
	if len(bad) == 0 {
		o.Status, o.Solver, o.Output = "discharged", "grammar scan", fmt.Sprintf("grammar scan: %d alternatives", len(alts))
	} else {
		o.Status, o.Output = "refuted", "grammar scan: "+strings.Join(bad, "; ")
	}
	return o
}

// grammarNonEmptyObls: the listed nonterminals cannot derive the empty string (the contracts assume the lists built
// from them non-empty: a choice type has at least one option).
func (e *engine) grammarNonEmptyObls(prop string, g *grammarDecl) []*obligation {
	if len(g.NonEmpty) == 0 {
		return nil
	}
	pos := fmt.Sprintf("%s:%d", relPath(g.File), g.Line)
	src, err := os.ReadFile(filepath.Join(e.w.repo, g.Source))
	var alts []yaccAlt
	if err == nil {
		alts = parseYaccRules(string(src))
	}
	nonterm := map[string]bool{}
	for _, a := range alts {
		nonterm[a.lhs] = true
	}
	nullable := map[string]bool{}
	for changed := true; changed; {
		changed = false
		for _, a := range alts {
			if nullable[a.lhs] {
				continue
			}
			all := true
			for _, s := range a.symbols {
				if !nonterm[s] || !nullable[s] {
					all = false
					break
				}
			}
			if all {
				nullable[a.lhs] = true
				changed = true
			}
		}
	}
	var out []*obligation
	for _, nt := range g.NonEmpty {
		o := &obligation{Func: "module", Name: "module/grammar/nonempty/" + nt, Kind: "frame", Label: prop + ".grammar", Props: []string{prop}, Pos: pos,
			Clause: "the nonterminal " + nt + " of " + g.Source + " cannot derive the empty string"}
		switch {
		case err != nil:
			o.Status, o.Output = "refuted", "grammar scan: "+err.Error()
		case !nonterm[nt]:
			o.Status, o.Output = "refuted", "grammar scan: no such nonterminal"
		case nullable[nt]:
			o.Status, o.Output = "refuted", "grammar scan: "+nt+" has an alternative that derives the empty string"
		default:
			o.Status, o.Solver, o.Output = "discharged", "grammar scan", "grammar scan: not nullable"
		}
		out = append(out, o)
	}
	return out
}
