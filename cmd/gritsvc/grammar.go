package main

import (
	"bytes"
	"fmt"
	"os"
	"os/exec"
	"path/filepath"
	"strings"
)

// Grammar assumptions. The printers are proved to print canonically (pp); that the canonical text parses back to the
// same tree rests on the grammar: which operators share a precedence level and how they associate. The parser driver
// is generated code (tables), outside the reach of contracts, so the assumption is pinned mechanically instead:
//   - module/grammar/generated: the checked-in driver is byte for byte what the generator makes of the grammar file;
//   - module/grammar/precedence: the grammar's associativity/precedence declarations are exactly the ones the bracket
//     rule of pp was written against.
func (e *engine) grammarObls(prop string, g *grammarDecl) []*obligation {
	var out []*obligation
	pos := fmt.Sprintf("%s:%d", relPath(g.File), g.Line)
	// precedence lines
	o := &obligation{Func: "module", Name: "module/grammar/precedence", Kind: "frame", Label: prop + ".grammar", Props: []string{prop}, Pos: pos,
		Clause: "the %left/%right/%nonassoc declarations of " + g.Source + " are, in order: " + strings.Join(g.Precedence, " | ")}
	src, err := os.ReadFile(filepath.Join(e.w.repo, g.Source))
	if err != nil {
		o.Status, o.Output = "refuted", "grammar scan: "+err.Error()
	} else {
		var have []string
		for _, ln := range strings.Split(string(src), "\n") {
			t := strings.TrimSpace(ln)
			if strings.HasPrefix(t, "%left") || strings.HasPrefix(t, "%right") || strings.HasPrefix(t, "%nonassoc") || strings.HasPrefix(t, "%precedence") {
				have = append(have, strings.Join(strings.Fields(t), " "))
			}
			if t == "%%" {
				break
			}
		}
		if strings.Join(have, "\n") == strings.Join(g.Precedence, "\n") {
			o.Status, o.Solver, o.Output = "discharged", "grammar scan", "grammar scan: declarations as stated"
		} else {
			o.Status, o.Output = "refuted", "grammar scan: the grammar declares: "+strings.Join(have, " | ")
		}
	}
	if len(g.Precedence) > 0 {
		out = append(out, o)
	}
	// generated driver
	o2 := &obligation{Func: "module", Name: "module/grammar/generated", Kind: "frame", Label: prop + ".grammar", Props: []string{prop}, Pos: pos,
		Clause: g.Generated + " is what `" + strings.Join(g.Command, " ") + "` generates from " + g.Source}
	func() {
		tmp, err := os.MkdirTemp("", "gritsvc-grammar-")
		if err != nil {
			o2.Status, o2.Output = "refuted", "generator: "+err.Error()
			return
		}
		defer os.RemoveAll(tmp)
		if err := os.MkdirAll(filepath.Join(tmp, filepath.Dir(g.Source)), 0o755); err != nil {
			o2.Status, o2.Output = "refuted", "generator: "+err.Error()
			return
		}
		os.MkdirAll(filepath.Join(tmp, filepath.Dir(g.Generated)), 0o755)
		if src == nil {
			o2.Status, o2.Output = "refuted", "generator: no grammar file"
			return
		}
		os.WriteFile(filepath.Join(tmp, g.Source), src, 0o644)
		tool := filepath.Join(e.verif, "bin", g.Command[0])
		if exe, err := os.Executable(); err == nil {
			tool = filepath.Join(filepath.Dir(exe), g.Command[0]) // built next to this binary by MANIFEST.setup_cmd
		}
		cmd := exec.Command(tool, g.Command[1:]...)
		cmd.Dir = tmp
		outb, err := cmd.CombinedOutput()
		if err != nil {
			o2.Status, o2.Output = "refuted", "generator failed: "+err.Error()+": "+string(outb)
			return
		}
		want, err1 := os.ReadFile(filepath.Join(tmp, g.Generated))
		have, err2 := os.ReadFile(filepath.Join(e.w.repo, g.Generated))
		if err1 != nil || err2 != nil {
			o2.Status, o2.Output = "refuted", fmt.Sprintf("generator: %v %v", err1, err2)
			return
		}
		if bytes.Equal(want, have) {
			o2.Status, o2.Solver, o2.Output = "discharged", "generator rerun", "generator rerun: identical ("+strings.TrimSpace(lastLine(string(outb)))+")"
		} else {
			o2.Status, o2.Output = "refuted", "generator rerun: the checked-in file differs from the generator's output"
		}
	}()
	out = append(out, o2)
	return out
}

func lastLine(s string) string {
	ls := strings.Split(strings.TrimSpace(s), "\n")
	return ls[len(ls)-1]
}
