package main

// Module-wide frame obligations for package-level state (C19): no function of the module, other than package
// initialisers, writes a package-level variable or mutates something reached through one. The obligation is decided
// by a conservative scan of the SSA of every module function (a may-write analysis on addresses rooted at a global):
// a store through an address derived from the variable, an update/delete of a map or a send on a channel read from
// it, or a call that is handed an address derived from it, counts as a write. One obligation per variable:
// module/frame/global/<pkg>.<name>.

import (
	"fmt"
	"go/token"
	"go/types"
	"sort"
	"strings"

	"golang.org/x/tools/go/ssa"
)

// rootGlobal follows an address or a value back to the package-level variable it derives from (nil if none).
func rootGlobal(v ssa.Value, depth int) *ssa.Global {
	return rootGlobalSeen(v, map[ssa.Value]bool{})
}

func rootGlobalSeen(v ssa.Value, seen map[ssa.Value]bool) *ssa.Global {
	if v == nil || seen[v] {
		return nil
	}
	seen[v] = true
	switch x := v.(type) {
	case *ssa.Global:
		return x
	case *ssa.FieldAddr:
		return rootGlobalSeen(x.X, seen)
	case *ssa.IndexAddr:
		return rootGlobalSeen(x.X, seen)
	case *ssa.Field:
		return rootGlobalSeen(x.X, seen)
	case *ssa.Index:
		return rootGlobalSeen(x.X, seen)
	case *ssa.UnOp:
		if x.Op == token.MUL || x.Op == token.ARROW {
			return rootGlobalSeen(x.X, seen)
		}
	case *ssa.Slice:
		return rootGlobalSeen(x.X, seen)
	case *ssa.ChangeType:
		return rootGlobalSeen(x.X, seen)
	case *ssa.Convert:
		return rootGlobalSeen(x.X, seen)
	case *ssa.MakeInterface:
		return rootGlobalSeen(x.X, seen)
	case *ssa.Lookup:
		return rootGlobalSeen(x.X, seen)
	case *ssa.Phi:
		for _, e := range x.Edges {
			if g := rootGlobalSeen(e, seen); g != nil {
				return g
			}
		}
	}
	return nil
}

// holdsReference: values of this type can be used to mutate what they refer to.
func mutableThrough(v ssa.Value) bool {
	s := v.Type().Underlying().String()
	return strings.HasPrefix(s, "*") || strings.HasPrefix(s, "map[") || strings.HasPrefix(s, "chan ") || strings.HasPrefix(s, "[]") || strings.HasPrefix(s, "func(") || strings.HasPrefix(s, "interface")
}

type globalWrite struct {
	g    *ssa.Global
	what string
	pos  string
}

func (e *engine) scanGlobalWrites() (globals []*ssa.Global, writes map[*ssa.Global][]globalWrite) {
	writes = map[*ssa.Global][]globalWrite{}
	seenG := map[*ssa.Global]bool{}
	for _, pkg := range e.w.prog.AllPackages() {
		if pkg.Pkg == nil || !e.w.inModule(pkg.Pkg.Path()) {
			continue
		}
		for _, m := range pkg.Members {
			if g, ok := m.(*ssa.Global); ok && !seenG[g] {
				if strings.HasPrefix(g.Name(), "init$") {
					continue
				}
				seenG[g] = true
				globals = append(globals, g)
			}
		}
	}
	sort.Slice(globals, func(i, j int) bool { return globals[i].String() < globals[j].String() })
	var fns []*ssa.Function
	seenF := map[*ssa.Function]bool{}
	var addFn func(f *ssa.Function)
	addFn = func(f *ssa.Function) {
		if f == nil || seenF[f] || f.Blocks == nil {
			return
		}
		seenF[f] = true
		fns = append(fns, f)
		for _, a := range f.AnonFuncs {
			addFn(a)
		}
	}
	for _, f := range e.w.funcs {
		addFn(f)
	}
	for _, pkg := range e.w.prog.AllPackages() {
		if pkg.Pkg == nil || !e.w.inModule(pkg.Pkg.Path()) {
			continue
		}
		for _, m := range pkg.Members {
			if f, ok := m.(*ssa.Function); ok {
				addFn(f)
			}
		}
	}
	rec := func(g *ssa.Global, what string, fn *ssa.Function, p token.Pos) {
		if g == nil || g.Pkg == nil || !e.w.inModule(g.Pkg.Pkg.Path()) {
			return
		}
		ps := e.w.fset.Position(p)
		writes[g] = append(writes[g], globalWrite{g, what + " in " + fn.String(), fmt.Sprintf("%s:%d", strings.TrimPrefix(ps.Filename, e.w.repo+"/"), ps.Line)})
	}
	for _, fn := range fns {
		if fn.Name() == "init" || strings.HasPrefix(fn.Name(), "init#") || (fn.Synthetic != "" && strings.Contains(fn.Synthetic, "package initializer")) {
			continue
		}
		for _, b := range fn.Blocks {
			for _, ins := range b.Instrs {
				switch x := ins.(type) {
				case *ssa.Store:
					rec(rootGlobal(x.Addr, 0), "store", fn, x.Pos())
				case *ssa.MapUpdate:
					rec(rootGlobal(x.Map, 0), "map update", fn, x.Pos())
				case *ssa.Send:
					rec(rootGlobal(x.Chan, 0), "send", fn, x.Pos())
				case ssa.CallInstruction:
					cc := x.Common()
					if bi, ok := cc.Value.(*ssa.Builtin); ok {
						if bi.Name() == "delete" || bi.Name() == "close" || bi.Name() == "clear" || bi.Name() == "copy" {
							if len(cc.Args) > 0 {
								rec(rootGlobal(cc.Args[0], 0), bi.Name(), fn, x.Pos())
							}
						}
						continue
					}
					args := append([]ssa.Value{}, cc.Args...)
					if cc.IsInvoke() {
						args = append(args, cc.Value)
					}
					for _, a := range args {
						if g := rootGlobal(a, 0); g != nil && mutableThrough(a) {
							rec(g, "reference handed to a call ("+callName(cc)+")", fn, x.Pos())
						}
					}
				}
			}
		}
	}
	return
}

func callName(cc *ssa.CallCommon) string {
	if cc.IsInvoke() {
		return cc.Method.Name()
	}
	if f := cc.StaticCallee(); f != nil {
		return f.String()
	}
	return cc.Value.Name()
}

// readOnlyCallee: calls that are handed a reference derived from a package-level variable but are known not to write
// through it (printing and look-ups); everything else counts as a write.
var readOnlyCallees = map[string]bool{
	"fmt.Sprintf": true, "fmt.Sprint": true, "fmt.Sprintln": true, "fmt.Printf": true, "fmt.Println": true, "fmt.Print": true, "fmt.Errorf": true, "fmt.Fprintf": true, "fmt.Fprintln": true,
	"len": true, "errors.Is": true, "errors.As": true,
	"bytes.Replace": true, "bytes.TrimSpace": true, "strings.Replace": true,
	"(*github.com/gorilla/websocket.Upgrader).Upgrade": true, // reads its configuration (documented as safe for concurrent use)
}

func (e *engine) globalFrameObls(prop string, res *checkResult) []*obligation {
	globals, writes := e.scanGlobalWrites()
	var out []*obligation
	for _, g := range globals {
		o := &obligation{Func: "module", Name: "module/frame/global/" + g.String(), Kind: "frame", Label: prop + ".globalFrame", Props: []string{prop},
			Clause: "no function of the module other than package initialisers writes " + g.String() + " or mutates what is reached through it", Pos: e.posOf(g.Pos())}
		var bad []string
		for _, w := range writes[g] {
			ro := false
			for name := range readOnlyCallees {
				if strings.Contains(w.what, "("+name+")") {
					ro = true
					res.assumptions["external call "+name+" does not write through the reference to "+g.String()+" it is handed (read-only by its documentation)"] = true
				}
			}
			if !ro {
				bad = append(bad, w.what+" at "+w.pos)
			}
		}
		if len(bad) == 0 {
			o.Status, o.Solver = "discharged", "static may-write scan"
			o.Output = "static may-write scan: no write found"
		} else {
			sort.Strings(bad)
			o.Status = "refuted"
			o.Output = "static may-write scan: " + strings.Join(bad, "; ")
		}
		out = append(out, o)
	}
	return out
}

func (e *engine) posOf(p token.Pos) string {
	if !p.IsValid() {
		return ""
	}
	ps := e.w.fset.Position(p)
	return fmt.Sprintf("%s:%d", strings.TrimPrefix(ps.Filename, e.w.repo+"/"), ps.Line)
}

// ---- C13: access discipline obligations, decided on the SSA of every module function --------------------------
//
// module/atomic/<struct>.<field>: a field that is the operand of a sync/atomic operation somewhere in the module is
// accessed through sync/atomic everywhere - except by stores into an object the storing function has just allocated,
// and by the functions named after `atomicinit` in the contract files (which run before any goroutine is started).
//
// module/moved/<func>@<callee>#n: a value handed to a new goroutine (an argument of a `go` statement, or the receiver
// of a function declared `moves` in the contract files) is not used again by the function that handed it over, on
// any path after the hand-over.

type fieldKey struct {
	typ   string
	field int
	name  string
}

func fieldOfAddr(v ssa.Value) (fieldKey, bool) {
	fa, ok := v.(*ssa.FieldAddr)
	if !ok {
		return fieldKey{}, false
	}
	pt, ok := fa.X.Type().Underlying().(interface{ Elem() types.Type })
	if !ok {
		return fieldKey{}, false
	}
	st, ok := pt.Elem().Underlying().(*types.Struct)
	if !ok {
		return fieldKey{}, false
	}
	return fieldKey{pt.Elem().String(), fa.Field, st.Field(fa.Field).Name()}, true
}

func (e *engine) moduleFunctions() []*ssa.Function {
	var fns []*ssa.Function
	seenF := map[*ssa.Function]bool{}
	var addFn func(f *ssa.Function)
	addFn = func(f *ssa.Function) {
		if f == nil || seenF[f] || f.Blocks == nil {
			return
		}
		seenF[f] = true
		fns = append(fns, f)
		for _, a := range f.AnonFuncs {
			addFn(a)
		}
	}
	for _, n := range sortedKeys(e.w.funcs) {
		addFn(e.w.funcs[n])
	}
	return fns
}

func isLocalAlloc(v ssa.Value) bool {
	for i := 0; i < 10 && v != nil; i++ {
		switch x := v.(type) {
		case *ssa.Alloc:
			return true
		case *ssa.FieldAddr:
			v = x.X
		case *ssa.IndexAddr:
			v = x.X
		default:
			return false
		}
	}
	return false
}

func (e *engine) atomicObls(prop string) []*obligation {
	fns := e.moduleFunctions()
	atomicFields := map[fieldKey][]string{}
	for _, fn := range fns {
		for _, b := range fn.Blocks {
			for _, ins := range b.Instrs {
				ci, ok := ins.(ssa.CallInstruction)
				if !ok {
					continue
				}
				f := ci.Common().StaticCallee()
				if f == nil || f.Pkg == nil || f.Pkg.Pkg.Path() != "sync/atomic" {
					continue
				}
				for _, a := range ci.Common().Args {
					if fk, ok := fieldOfAddr(a); ok {
						atomicFields[fk] = append(atomicFields[fk], e.posOf(ins.Pos()))
					}
				}
			}
		}
	}
	var keys []fieldKey
	for k := range atomicFields {
		keys = append(keys, k)
	}
	sort.Slice(keys, func(i, j int) bool { return keys[i].typ+keys[i].name < keys[j].typ+keys[j].name })
	var out []*obligation
	for _, fk := range keys {
		o := &obligation{Func: "module", Name: "module/atomic/" + fk.typ + "." + fk.name, Kind: "frame", Label: prop + ".atomic", Props: []string{prop},
			Clause: "the field " + fk.typ + "." + fk.name + " (operand of sync/atomic at " + strings.Join(atomicFields[fk], ", ") + ") is read and written through sync/atomic only, except in functions that run before any goroutine is started"}
		var bad []string
		for _, fn := range fns {
			if e.w.db.AtomicInit[fn.String()] {
				continue
			}
			for _, b := range fn.Blocks {
				for _, ins := range b.Instrs {
					var addr ssa.Value
					what := ""
					switch x := ins.(type) {
					case *ssa.UnOp:
						if x.Op == token.MUL {
							addr, what = x.X, "plain read"
						}
					case *ssa.Store:
						addr, what = x.Addr, "plain write"
					}
					if addr == nil {
						continue
					}
					k2, ok := fieldOfAddr(addr)
					if !ok || k2 != fk {
						continue
					}
					if what == "plain write" && isLocalAlloc(addr) {
						continue // initialising a freshly allocated object
					}
					bad = append(bad, what+" in "+fn.String()+" at "+e.posOf(ins.Pos()))
				}
			}
		}
		if len(bad) == 0 {
			o.Status, o.Solver, o.Output = "discharged", "static access scan", "static access scan: every access is a sync/atomic call"
		} else {
			sort.Strings(bad)
			o.Status, o.Output = "refuted", "static access scan: "+strings.Join(bad, "; ")
		}
		out = append(out, o)
	}
	return out
}

// movedObls: no use of a value after it was handed to a new goroutine.
func (e *engine) movedObls(prop string) []*obligation {
	var out []*obligation
	for _, fn := range e.moduleFunctions() {
		n := 0
		for _, b := range fn.Blocks {
			for idx, ins := range b.Instrs {
				var moved []ssa.Value
				callee := ""
				switch x := ins.(type) {
				case *ssa.Go:
					cc := x.Common()
					moved = append(moved, cc.Args...)
					if cc.IsInvoke() {
						moved = append(moved, cc.Value)
					}
					callee = "go " + callName(cc)
				case *ssa.Call:
					if f := x.Common().StaticCallee(); f != nil && e.w.db.Moves[f.String()] && len(x.Common().Args) > 0 {
						moved = append(moved, x.Common().Args[0])
						callee = f.String()
					}
				}
				if callee == "" {
					continue
				}
				n++
				var tracked []ssa.Value
				for _, m := range moved {
					// only heap references to mutable structures matter; the runtime environment is shared by design
					pt, isPtr := m.Type().Underlying().(*types.Pointer)
					if !isPtr || !e.w.db.Owned[pt.Elem().String()] {
						continue // only values of the types declared `owned` (one goroutine at a time) are tracked
					}
					if _, isParam := m.(*ssa.Parameter); isParam && fn.Signature.Recv() != nil && len(fn.Params) > 0 && m == fn.Params[0] && callee[:2] == "go" {
						continue // a method starting a goroutine on its own receiver: the hand-over is its caller's business
					}
					tracked = append(tracked, m)
				}
				if len(tracked) == 0 {
					continue
				}
				o := &obligation{Func: fn.String(), Name: fmt.Sprintf("module/moved/%s@%s#%d", fn.String(), callee, n), Kind: "frame", Label: prop + ".moved", Props: []string{prop},
					Pos: e.posOf(ins.Pos()), Clause: "a value handed to a new goroutine is not used again by the function that handed it over"}
				var bad []string
				// instructions after the hand-over: the rest of this block and every block reachable from it
				seen := map[*ssa.BasicBlock]bool{}
				var later []ssa.Instruction
				later = append(later, b.Instrs[idx+1:]...)
				// a path that runs through the definition of the value again carries a new value from there on
				defBlocks := map[*ssa.BasicBlock]bool{}
				for _, t := range tracked {
					if di, ok := t.(ssa.Instruction); ok && di.Block() != nil {
						defBlocks[di.Block()] = true
					}
				}
				if defBlocks[b] {
					// the hand-over sits in the defining block: a path that comes back to this block starts a new value
					seen[b] = true
				}
				var walk func(bb *ssa.BasicBlock)
				walk = func(bb *ssa.BasicBlock) {
					if seen[bb] || defBlocks[bb] {
						return
					}
					seen[bb] = true
					later = append(later, bb.Instrs...)
					for _, s := range bb.Succs {
						walk(s)
					}
				}
				for _, s := range b.Succs {
					walk(s)
				}
				for _, li := range later {
					if li == ins {
						continue // the hand-over itself, reached again around a loop with a new value
					}
					for _, op := range li.Operands(nil) {
						if op == nil || *op == nil {
							continue
						}
						for _, t := range tracked {
							if *op == t {
								if _, isPhi := li.(*ssa.Phi); isPhi {
									continue
								}
								if _, isDbg := li.(*ssa.DebugRef); isDbg {
									continue
								}
								bad = append(bad, fmt.Sprintf("used again at %s (%s)", e.posOf(li.Pos()), li.String()))
							}
						}
					}
				}
				if len(bad) == 0 {
					o.Status, o.Solver, o.Output = "discharged", "static use-after-hand-over scan", "static scan: no later use"
				} else {
					sort.Strings(bad)
					o.Status, o.Output = "refuted", "static scan: "+strings.Join(bad, "; ")
				}
				out = append(out, o)
			}
		}
	}
	return out
}

// sharedObls: a value of a `shared` type is reachable from every goroutine of a run. After start-up (outside the
// `atomicinit` functions) each of its fields is either never written, or written through sync/atomic only, or written
// by its declared sole writer only. One obligation per field.
func (e *engine) sharedObls(prop string) []*obligation {
	var out []*obligation
	fns := e.moduleFunctions()
	var types_ []string
	for t := range e.w.db.Shared {
		types_ = append(types_, t)
	}
	sort.Strings(types_)
	for _, tn := range types_ {
		var st *types.Struct
		for _, fn := range fns {
			for _, b := range fn.Blocks {
				for _, ins := range b.Instrs {
					if fa, ok := ins.(*ssa.FieldAddr); ok {
						if k, ok := fieldOfAddr(fa); ok && k.typ == tn {
							st = fa.X.Type().Underlying().(*types.Pointer).Elem().Underlying().(*types.Struct)
						}
					}
				}
			}
		}
		if st == nil {
			out = append(out, &obligation{Func: "module", Name: "module/shared/" + tn, Kind: "frame", Label: prop + ".shared", Props: []string{prop}, Clause: "shared type " + tn + " has fields", Status: "refuted", Output: "static access scan: no field access of this type found (renamed?)"})
			continue
		}
		for i := 0; i < st.NumFields(); i++ {
			fname := st.Field(i).Name()
			sole := e.w.db.SoleWriter[tn+"."+fname]
			o := &obligation{Func: "module", Name: "module/shared/" + tn + "." + fname, Kind: "frame", Label: prop + ".shared", Props: []string{prop},
				Clause: "the field " + tn + "." + fname + " of the run-wide shared object is written, once goroutines run, only through sync/atomic" + map[bool]string{true: " or by its sole writer " + sole + ", and there before that function cancels the run's context (the release the driver waits for)", false: ""}[sole != ""]}
			var bad []string
			for _, fn := range fns {
				if sole != "" && inFunction(fn, sole) {
					// the sole writer (and the closures it contains): its plain writes must come before it releases the
					// other goroutines - no write to the field is reachable from a call of a context.CancelFunc
					bad = append(bad, e.writesAfterRelease(fn, tn, fname)...)
					continue
				}
				if e.w.db.AtomicInit[fn.String()] || !e.goReachable()[fn] {
					continue
				}
				for _, b := range fn.Blocks {
					for _, ins := range b.Instrs {
						x, ok := ins.(*ssa.Store)
						if !ok {
							continue
						}
						hit := false
						for _, k := range fieldsOnPath(x.Addr) {
							if k.typ == tn && k.name == fname {
								hit = true
							}
						}
						if !hit {
							continue
						}
						if isLocalAlloc(x.Addr) || e.madeHere(x.Addr) {
							continue
						}
						bad = append(bad, "plain write in "+fn.String()+" at "+e.posOf(ins.Pos()))
					}
				}
			}
			if len(bad) == 0 {
				o.Status, o.Solver, o.Output = "discharged", "static access scan", "static access scan: no plain write outside start-up"
			} else {
				sort.Strings(bad)
				o.Status, o.Output = "refuted", "static access scan: "+strings.Join(bad, "; ")
			}
			out = append(out, o)
		}
	}
	return out
}

// fieldsOnPath: the struct fields an address lies inside (x.f, x.f.g, x.f[i], ... all lie inside x.f).
func fieldsOnPath(v ssa.Value) []fieldKey {
	var out []fieldKey
	for i := 0; i < 10 && v != nil; i++ {
		switch x := v.(type) {
		case *ssa.FieldAddr:
			if k, ok := fieldOfAddr(x); ok {
				out = append(out, k)
			}
			v = x.X
		case *ssa.IndexAddr:
			if _, isPtr := x.X.Type().Underlying().(*types.Pointer); !isPtr {
				return out // an element of a slice: another object
			}
			v = x.X
		default:
			return out
		}
	}
	return out
}

// goReachable: the functions that can run on a goroutine other than the driver's - everything reachable (static calls,
// interface dispatch into module types, function values, closures created on the way) from the target of a go statement.
func (e *engine) goReachable() map[*ssa.Function]bool {
	if e.goReach != nil {
		return e.goReach
	}
	reach := map[*ssa.Function]bool{}
	var work []*ssa.Function
	add := func(f *ssa.Function) {
		if f != nil && f.Blocks != nil && !reach[f] {
			reach[f] = true
			work = append(work, f)
		}
	}
	for _, fn := range e.moduleFunctions() {
		for _, b := range fn.Blocks {
			for _, ins := range b.Instrs {
				if g, ok := ins.(*ssa.Go); ok {
					fs, _ := e.ma.callees(g.Common())
					for _, f := range fs {
						add(f)
					}
				}
			}
		}
	}
	for len(work) > 0 {
		fn := work[len(work)-1]
		work = work[:len(work)-1]
		for _, b := range fn.Blocks {
			for _, ins := range b.Instrs {
				switch x := ins.(type) {
				case *ssa.MakeClosure:
					add(x.Fn.(*ssa.Function))
				case ssa.CallInstruction:
					fs, _ := e.ma.callees(x.Common())
					for _, f := range fs {
						add(f)
					}
				}
			}
		}
	}
	e.goReach = reach
	return reach
}

// madeHere: the address lies in an object this function has just obtained from a start-up function (`atomicinit`, e.g.
// the constructor NewRuntimeEnvironment): no other goroutine knows it yet.
func (e *engine) madeHere(v ssa.Value) bool {
	for i := 0; i < 10 && v != nil; i++ {
		switch x := v.(type) {
		case *ssa.FieldAddr:
			v = x.X
		case *ssa.IndexAddr:
			v = x.X
		case *ssa.Extract:
			v = x.Tuple
		case *ssa.Call:
			f := x.Call.StaticCallee()
			return f != nil && e.w.db.AtomicInit[f.String()]
		default:
			return false
		}
	}
	return false
}

// inFunction: fn is the function named name or a closure nested in it.
func inFunction(fn *ssa.Function, name string) bool {
	for f := fn; f != nil; f = f.Parent() {
		if f.String() == name {
			return true
		}
	}
	return false
}

// writesAfterRelease: in the sole writer fn (one function or closure), a plain write to TYPE.field that can execute
// after a call of a context.CancelFunc in the same function - directly, or at the function's exits when the call is
// deferred. A write in a closure other than the one that cancels cannot be ordered by this scan and is reported too.
func (e *engine) writesAfterRelease(fn *ssa.Function, tn, fname string) []string {
	var bad []string
	isCancel := func(c *ssa.CallCommon) bool {
		if c.IsInvoke() {
			return false
		}
		t := c.Value.Type()
		if n, ok := t.(*types.Named); ok && n.Obj().Pkg() != nil && n.Obj().Pkg().Path() == "context" && n.Obj().Name() == "CancelFunc" {
			return true
		}
		if ptr, ok := c.Value.(*ssa.UnOp); ok { // a captured variable: *fv
			if pt, ok := ptr.X.Type().Underlying().(*types.Pointer); ok {
				if n, ok := pt.Elem().(*types.Named); ok && n.Obj().Pkg() != nil && n.Obj().Pkg().Path() == "context" && n.Obj().Name() == "CancelFunc" {
					return true
				}
			}
		}
		return false
	}
	type site struct {
		b   *ssa.BasicBlock
		idx int
		pos string
	}
	var stores, releases []site
	deferredRelease := false
	for _, b := range fn.Blocks {
		for i, ins := range b.Instrs {
			switch x := ins.(type) {
			case *ssa.Store:
				for _, k := range fieldsOnPath(x.Addr) {
					if k.typ == tn && k.name == fname && !isLocalAlloc(x.Addr) {
						stores = append(stores, site{b, i, e.posOf(ins.Pos())})
					}
				}
			case *ssa.Call:
				if isCancel(x.Common()) {
					releases = append(releases, site{b, i, e.posOf(ins.Pos())})
				}
			case *ssa.Defer:
				if isCancel(x.Common()) {
					deferredRelease = true
				}
			}
		}
	}
	// a deferred cancel runs at the exits: after every write of this function - fine; but a write in a closure that is
	// itself deferred by this function runs around the same time: report (cannot be ordered here)
	_ = deferredRelease
	if len(stores) == 0 {
		return nil
	}
	reach := func(from, to *ssa.BasicBlock) bool {
		seen := map[*ssa.BasicBlock]bool{}
		var walk func(b *ssa.BasicBlock) bool
		walk = func(b *ssa.BasicBlock) bool {
			for _, s := range b.Succs {
				if s == to {
					return true
				}
				if !seen[s] {
					seen[s] = true
					if walk(s) {
						return true
					}
				}
			}
			return false
		}
		return walk(from)
	}
	for _, st := range stores {
		for _, r := range releases {
			if (r.b == st.b && r.idx < st.idx) || reach(r.b, st.b) {
				bad = append(bad, "plain write in "+fn.String()+" at "+st.pos+" can follow the cancel at "+r.pos)
			}
		}
	}
	// writes in a closure: the enclosing function (or another closure) may cancel before the closure runs
	if fn.Parent() != nil {
		for p := fn.Parent(); p != nil; p = p.Parent() {
			for _, b := range p.Blocks {
				for _, ins := range b.Instrs {
					var cc *ssa.CallCommon
					switch x := ins.(type) {
					case *ssa.Call:
						cc = x.Common()
					case *ssa.Defer:
						cc = x.Common()
					}
					if cc != nil && isCancel(cc) && len(releases) == 0 {
						for _, st := range stores {
							bad = append(bad, "plain write in the closure "+fn.String()+" at "+st.pos+" cannot be ordered before the cancel in "+p.String()+" at "+e.posOf(ins.Pos()))
						}
					}
				}
			}
		}
	}
	return bad
}
