package main

// Module-wide frame obligations for package-level state (C19): no function of the module, other than package
// initialisers, writes a package-level variable or mutates something reached through one. The obligation is decided
// by a conservative scan of the SSA of every module function (a may-write analysis on addresses rooted at a global):
// a store through an address derived from the variable, an update/delete of a map or a send on a channel read from
// it, or a call that is handed an address derived from it, counts as a write. One obligation per variable:
// module/frame/global/<pkg>.<name>.

import (
	"fmt"
	"go/token"
	"sort"
	"strings"

	"golang.org/x/tools/go/ssa"
)

// rootGlobal follows an address or a value back to the package-level variable it derives from (nil if none).
func rootGlobal(v ssa.Value, depth int) *ssa.Global {
	return rootGlobalSeen(v, map[ssa.Value]bool{})
}

func rootGlobalSeen(v ssa.Value, seen map[ssa.Value]bool) *ssa.Global {
	if v == nil || seen[v] {
		return nil
	}
	seen[v] = true
	switch x := v.(type) {
	case *ssa.Global:
		return x
	case *ssa.FieldAddr:
		return rootGlobalSeen(x.X, seen)
	case *ssa.IndexAddr:
		return rootGlobalSeen(x.X, seen)
	case *ssa.Field:
		return rootGlobalSeen(x.X, seen)
	case *ssa.Index:
		return rootGlobalSeen(x.X, seen)
	case *ssa.UnOp:
		if x.Op == token.MUL || x.Op == token.ARROW {
			return rootGlobalSeen(x.X, seen)
		}
	case *ssa.Slice:
		return rootGlobalSeen(x.X, seen)
	case *ssa.ChangeType:
		return rootGlobalSeen(x.X, seen)
	case *ssa.Convert:
		return rootGlobalSeen(x.X, seen)
	case *ssa.MakeInterface:
		return rootGlobalSeen(x.X, seen)
	case *ssa.Lookup:
		return rootGlobalSeen(x.X, seen)
	case *ssa.Phi:
		for _, e := range x.Edges {
			if g := rootGlobalSeen(e, seen); g != nil {
				return g
			}
		}
	}
	return nil
}

// holdsReference: values of this type can be used to mutate what they refer to.
func mutableThrough(v ssa.Value) bool {
	s := v.Type().Underlying().String()
	return strings.HasPrefix(s, "*") || strings.HasPrefix(s, "map[") || strings.HasPrefix(s, "chan ") || strings.HasPrefix(s, "[]") || strings.HasPrefix(s, "func(") || strings.HasPrefix(s, "interface")
}

type globalWrite struct {
	g    *ssa.Global
	what string
	pos  string
}

func (e *engine) scanGlobalWrites() (globals []*ssa.Global, writes map[*ssa.Global][]globalWrite) {
	writes = map[*ssa.Global][]globalWrite{}
	seenG := map[*ssa.Global]bool{}
	for _, pkg := range e.w.prog.AllPackages() {
		if pkg.Pkg == nil || !e.w.inModule(pkg.Pkg.Path()) {
			continue
		}
		for _, m := range pkg.Members {
			if g, ok := m.(*ssa.Global); ok && !seenG[g] {
				if strings.HasPrefix(g.Name(), "init$") {
					continue
				}
				seenG[g] = true
				globals = append(globals, g)
			}
		}
	}
	sort.Slice(globals, func(i, j int) bool { return globals[i].String() < globals[j].String() })
	var fns []*ssa.Function
	seenF := map[*ssa.Function]bool{}
	var addFn func(f *ssa.Function)
	addFn = func(f *ssa.Function) {
		if f == nil || seenF[f] || f.Blocks == nil {
			return
		}
		seenF[f] = true
		fns = append(fns, f)
		for _, a := range f.AnonFuncs {
			addFn(a)
		}
	}
	for _, f := range e.w.funcs {
		addFn(f)
	}
	for _, pkg := range e.w.prog.AllPackages() {
		if pkg.Pkg == nil || !e.w.inModule(pkg.Pkg.Path()) {
			continue
		}
		for _, m := range pkg.Members {
			if f, ok := m.(*ssa.Function); ok {
				addFn(f)
			}
		}
	}
	rec := func(g *ssa.Global, what string, fn *ssa.Function, p token.Pos) {
		if g == nil || g.Pkg == nil || !e.w.inModule(g.Pkg.Pkg.Path()) {
			return
		}
		ps := e.w.fset.Position(p)
		writes[g] = append(writes[g], globalWrite{g, what + " in " + fn.String(), fmt.Sprintf("%s:%d", strings.TrimPrefix(ps.Filename, e.w.repo+"/"), ps.Line)})
	}
	for _, fn := range fns {
		if fn.Name() == "init" || strings.HasPrefix(fn.Name(), "init#") || (fn.Synthetic != "" && strings.Contains(fn.Synthetic, "package initializer")) {
			continue
		}
		for _, b := range fn.Blocks {
			for _, ins := range b.Instrs {
				switch x := ins.(type) {
				case *ssa.Store:
					rec(rootGlobal(x.Addr, 0), "store", fn, x.Pos())
				case *ssa.MapUpdate:
					rec(rootGlobal(x.Map, 0), "map update", fn, x.Pos())
				case *ssa.Send:
					rec(rootGlobal(x.Chan, 0), "send", fn, x.Pos())
				case ssa.CallInstruction:
					cc := x.Common()
					if bi, ok := cc.Value.(*ssa.Builtin); ok {
						if bi.Name() == "delete" || bi.Name() == "close" || bi.Name() == "clear" || bi.Name() == "copy" {
							if len(cc.Args) > 0 {
								rec(rootGlobal(cc.Args[0], 0), bi.Name(), fn, x.Pos())
							}
						}
						continue
					}
					args := append([]ssa.Value{}, cc.Args...)
					if cc.IsInvoke() {
						args = append(args, cc.Value)
					}
					for _, a := range args {
						if g := rootGlobal(a, 0); g != nil && mutableThrough(a) {
							rec(g, "reference handed to a call ("+callName(cc)+")", fn, x.Pos())
						}
					}
				}
			}
		}
	}
	return
}

func callName(cc *ssa.CallCommon) string {
	if cc.IsInvoke() {
		return cc.Method.Name()
	}
	if f := cc.StaticCallee(); f != nil {
		return f.String()
	}
	return cc.Value.Name()
}

// readOnlyCallee: calls that are handed a reference derived from a package-level variable but are known not to write
// through it (printing and look-ups); everything else counts as a write.
var readOnlyCallees = map[string]bool{
	"fmt.Sprintf": true, "fmt.Sprint": true, "fmt.Sprintln": true, "fmt.Printf": true, "fmt.Println": true, "fmt.Print": true, "fmt.Errorf": true, "fmt.Fprintf": true, "fmt.Fprintln": true,
	"len": true, "errors.Is": true, "errors.As": true,
	"bytes.Replace": true, "bytes.TrimSpace": true, "strings.Replace": true,
	"(*github.com/gorilla/websocket.Upgrader).Upgrade": true, // reads its configuration (documented as safe for concurrent use)
}

func (e *engine) globalFrameObls(prop string, res *checkResult) []*obligation {
	globals, writes := e.scanGlobalWrites()
	var out []*obligation
	for _, g := range globals {
		o := &obligation{Func: "module", Name: "module/frame/global/" + g.String(), Kind: "frame", Label: prop + ".globalFrame", Props: []string{prop},
			Clause: "no function of the module other than package initialisers writes " + g.String() + " or mutates what is reached through it", Pos: e.posOf(g.Pos())}
		var bad []string
		for _, w := range writes[g] {
			ro := false
			for name := range readOnlyCallees {
				if strings.Contains(w.what, "("+name+")") {
					ro = true
					res.assumptions["external call "+name+" does not write through the reference to "+g.String()+" it is handed (read-only by its documentation)"] = true
				}
			}
			if !ro {
				bad = append(bad, w.what+" at "+w.pos)
			}
		}
		if len(bad) == 0 {
			o.Status, o.Solver = "discharged", "static may-write scan"
			o.Output = "static may-write scan: no write found"
		} else {
			sort.Strings(bad)
			o.Status = "refuted"
			o.Output = "static may-write scan: " + strings.Join(bad, "; ")
		}
		out = append(out, o)
	}
	return out
}

func (e *engine) posOf(p token.Pos) string {
	if !p.IsValid() {
		return ""
	}
	ps := e.w.fset.Position(p)
	return fmt.Sprintf("%s:%d", strings.TrimPrefix(ps.Filename, e.w.repo+"/"), ps.Line)
}
