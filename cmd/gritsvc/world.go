package main

// Loading /repo (go/packages + go/ssa) and the mapping from Go types to SMT sorts.

import (
	"fmt"
	"go/token"
	"go/types"
	"os"
	"sort"
	"strings"

	"golang.org/x/tools/go/packages"
	"golang.org/x/tools/go/ssa"
	"golang.org/x/tools/go/ssa/ssautil"
)

type world struct {
	repo    string
	modPath string
	fset    *token.FileSet
	prog    *ssa.Program
	pkgs    map[string]*ssa.Package // by path, module packages only
	allPkgs []*packages.Package
	funcs   map[string]*ssa.Function // by full name (fn.String()), module functions incl. methods and closures
	db      *contractDB

	typeIDs   map[string]int // named (struct) type -> id (for tyof)
	typeNames []string
	fieldIDs  map[string]int // "pkg.Struct.field" -> fid
	fieldByID map[int]fieldInfo
	fidsSorted []int
	reachCache map[string]bool
	inScopeFn func(fn *ssa.Function, layer string) bool // set by the engine: fn belongs to the sweep of the layer's property
	impls     map[string][]*types.Named // interface full name -> implementing pointer-receiver named types (module)
	modsets   map[*ssa.Function]map[string]bool
	modAll    map[*ssa.Function]bool
	specReads     map[string][]string
	recFuncs map[*ssa.Function]bool
	takenFuncs map[*ssa.Function]bool // functions used as values (funcvals.go)
	sccID map[*ssa.Function]int
	globals map[string]int
	constGlobals map[*ssa.Global]*ssa.Const // package-level variables that are initialised with a constant and never written again
	specHeapSorts map[string]string
	loadSecs  float64
}

func mangle(s string) string {
	var sb strings.Builder
	for _, r := range s {
		switch {
		case r >= 'a' && r <= 'z', r >= 'A' && r <= 'Z', r >= '0' && r <= '9', r == '_':
			sb.WriteRune(r)
		case r == '*':
			sb.WriteString("P_")
		case r == '[':
			sb.WriteString("L_")
		case r == ']':
			sb.WriteString("_R")
		case r == '.', r == '/':
			sb.WriteString("_")
		default:
			sb.WriteString("_")
		}
	}
	return sb.String()
}

func loadWorld(repo string, patterns []string, tags string) (*world, error) {
	w := &world{repo: repo, pkgs: map[string]*ssa.Package{}, funcs: map[string]*ssa.Function{},
		typeIDs: map[string]int{}, fieldIDs: map[string]int{}, impls: map[string][]*types.Named{}, fieldByID: map[int]fieldInfo{}}
	w.fset = token.NewFileSet()
	cfg := &packages.Config{
		Mode: packages.NeedName | packages.NeedFiles | packages.NeedCompiledGoFiles | packages.NeedImports | packages.NeedDeps |
			packages.NeedTypes | packages.NeedSyntax | packages.NeedTypesInfo | packages.NeedTypesSizes | packages.NeedModule,
		Dir:  repo,
		Fset: w.fset,
		Env:  append(os.Environ(), "GOFLAGS=-mod=mod", "GOPROXY=off", "GOSUMDB=off", "GOTOOLCHAIN=local"),
	}
	if tags != "" {
		cfg.BuildFlags = []string{"-tags=" + tags}
	}
	pkgs, err := packages.Load(cfg, patterns...)
	if err != nil {
		return nil, err
	}
	nerr := 0
	packages.Visit(pkgs, nil, func(p *packages.Package) {
		for _, e := range p.Errors {
			if nerr < 10 {
				fmt.Fprintf(os.Stderr, "load error: %v\n", e)
			}
			nerr++
		}
	})
	if nerr > 0 {
		return nil, fmt.Errorf("%d errors loading %v (the tree must compile)", nerr, patterns)
	}
	w.allPkgs = pkgs
	prog, spkgs := ssautil.AllPackages(pkgs, ssa.InstantiateGenerics|ssa.GlobalDebug)
	prog.Build()
	w.prog = prog
	for i, p := range pkgs {
		if p.Module != nil && w.modPath == "" {
			w.modPath = p.Module.Path
		}
		if spkgs[i] != nil {
			w.pkgs[p.PkgPath] = spkgs[i]
		}
	}
	if w.modPath == "" {
		w.modPath = "grits"
	}
	for fn := range ssautil.AllFunctions(prog) {
		if fn.Pkg == nil && fn.Parent() == nil {
			// wrappers, bound methods, instantiations without package
			if fn.Origin() == nil {
				continue
			}
		}
		pk := fn.Pkg
		if pk == nil && fn.Parent() != nil {
			pk = fn.Parent().Pkg
		}
		if pk == nil || !w.inModule(pk.Pkg.Path()) {
			continue
		}
		if fn.Synthetic != "" && fn.Blocks == nil {
			continue
		}
		w.funcs[fn.String()] = fn
	}
	w.indexTypes()
	w.findConstGlobals()
	return w, nil
}

func (w *world) inModule(path string) bool {
	return path == w.modPath || strings.HasPrefix(path, w.modPath+"/")
}

func (w *world) indexTypes() {
	var names []string
	structs := map[string]*types.Named{}
	var ifaces []*types.Named
	for path, p := range w.pkgs {
		if !w.inModule(path) {
			continue
		}
		sc := p.Pkg.Scope()
		for _, n := range sc.Names() {
			tn, ok := sc.Lookup(n).(*types.TypeName)
			if !ok {
				continue
			}
			named, ok := tn.Type().(*types.Named)
			if !ok {
				continue
			}
			full := path + "." + n
			switch named.Underlying().(type) {
			case *types.Struct:
				structs[full] = named
				names = append(names, full)
			case *types.Interface:
				ifaces = append(ifaces, named)
				names = append(names, full)
			default:
				names = append(names, full)
			}
		}
	}
	sort.Strings(names)
	for i, n := range names {
		w.typeIDs[n] = i + 1
	}
	w.typeNames = names
	// field ids
	var fnames []string
	for full, named := range structs {
		st := named.Underlying().(*types.Struct)
		for i := 0; i < st.NumFields(); i++ {
			fnames = append(fnames, full+"."+st.Field(i).Name())
		}
	}
	sort.Strings(fnames)
	for i, n := range fnames {
		w.fieldIDs[n] = i + 1
	}
	for full, named := range structs {
		st := named.Underlying().(*types.Struct)
		for i := 0; i < st.NumFields(); i++ {
			id := w.fieldIDs[full+"."+st.Field(i).Name()]
			w.fieldByID[id] = fieldInfo{key: "F_" + mangle(full[strings.LastIndex(full, "/")+1:]) + "_" + mangle(st.Field(i).Name()), typ: st.Field(i).Type()}
		}
	}
	// implementations
	for _, in := range ifaces {
		it := in.Underlying().(*types.Interface)
		key := in.Obj().Pkg().Path() + "." + in.Obj().Name()
		var fulls []string
		for full := range structs {
			fulls = append(fulls, full)
		}
		sort.Strings(fulls)
		for _, full := range fulls {
			named := structs[full]
			if types.Implements(types.NewPointer(named), it) {
				w.impls[key] = append(w.impls[key], named)
			}
		}
	}
}

// fieldID returns a globally unique id for a field of a struct type. Unnamed/external structs get
// ids allocated on demand (deterministically by name).
func (w *world) fieldID(st types.Type, idx int) int {
	key := w.structKey(st) + "." + st.Underlying().(*types.Struct).Field(idx).Name()
	if id, ok := w.fieldIDs[key]; ok {
		return id
	}
	id := 100000 + len(w.fieldIDs)
	w.fieldIDs[key] = id
	f := st.Underlying().(*types.Struct).Field(idx)
	w.fieldByID[id] = fieldInfo{key: "F_" + mangle(w.structKey(st)) + "_" + mangle(f.Name()), typ: f.Type()}
	w.fidsSorted = nil
	return id
}

type fieldInfo struct {
	key string
	typ types.Type
}

func (w *world) fieldIDsSorted() []int {
	if w.fidsSorted == nil {
		for id := range w.fieldByID {
			w.fidsSorted = append(w.fidsSorted, id)
		}
		sort.Ints(w.fidsSorted)
	}
	return w.fidsSorted
}

func (w *world) structKey(t types.Type) string {
	if n, ok := t.(*types.Named); ok {
		if n.Obj().Pkg() != nil {
			return n.Obj().Pkg().Path() + "." + n.Obj().Name()
		}
		return n.Obj().Name()
	}
	return t.String()
}

func (w *world) typeID(t types.Type) int {
	key := w.structKey(t)
	if id, ok := w.typeIDs[key]; ok {
		return id
	}
	id := 100000 + len(w.typeIDs)
	w.typeIDs[key] = id
	return id
}

// ---------------------------------------------------------------------------------------------
// sorts

// sortOf maps a Go type to an SMT sort name. Struct sorts are declared on demand in the smtctx.
func (c *smtctx) sortOf(t types.Type) string {
	switch u := t.Underlying().(type) {
	case *types.Basic:
		switch {
		case u.Info()&types.IsBoolean != 0:
			return "Bool"
		case u.Info()&types.IsInteger != 0:
			return "Int"
		case u.Info()&types.IsString != 0:
			return "String"
		case u.Info()&types.IsFloat != 0:
			return "Real"
		case u.Kind() == types.UnsafePointer, u.Kind() == types.UntypedNil:
			return "Ref"
		}
		return "Ref"
	case *types.Pointer, *types.Interface, *types.Map, *types.Chan, *types.Signature:
		return "Ref"
	case *types.Slice:
		return "Slice"
	case *types.Struct:
		return c.structSort(t)
	case *types.Array:
		return c.arraySort(t, u)
	case *types.Tuple:
		return "Tuple!"
	}
	return "Ref"
}

func (c *smtctx) structSort(t types.Type) string {
	key := c.w.structKey(t)
	name := "S_" + mangle(key)
	if c.declaredSorts[name] {
		return name
	}
	c.declaredSorts[name] = true
	if c.sortTypes == nil {
		c.sortTypes = map[string]types.Type{}
	}
	c.sortTypes[name] = t
	st := t.Underlying().(*types.Struct)
	var fields []string
	for i := 0; i < st.NumFields(); i++ {
		fs := c.sortOf(st.Field(i).Type())
		fields = append(fields, fmt.Sprintf("(%s_%s %s)", name, mangle(st.Field(i).Name()), fs))
	}
	if len(fields) == 0 {
		c.sortDecls = append(c.sortDecls, fmt.Sprintf("(declare-datatypes ((%s 0)) (((mk_%s))))", name, name))
	} else {
		c.sortDecls = append(c.sortDecls, fmt.Sprintf("(declare-datatypes ((%s 0)) (((mk_%s %s))))", name, name, strings.Join(fields, " ")))
	}
	return name
}

func (c *smtctx) arraySort(t types.Type, u *types.Array) string {
	return fmt.Sprintf("(Array Int %s)", c.sortOf(u.Elem()))
}

// isLeaf reports whether a value of this type occupies a single heap cell.
func isLeaf(t types.Type) bool {
	switch t.Underlying().(type) {
	case *types.Struct, *types.Array:
		return false
	}
	return true
}

func heapKey(t types.Type) string {
	return "H_" + mangle(types.TypeString(t, func(p *types.Package) string { return p.Name() }))
}

// zero value term for a Go type
func (c *smtctx) zero(t types.Type) string {
	switch u := t.Underlying().(type) {
	case *types.Basic:
		switch {
		case u.Info()&types.IsBoolean != 0:
			return "false"
		case u.Info()&types.IsInteger != 0:
			return "0"
		case u.Info()&types.IsString != 0:
			return "\"\""
		case u.Info()&types.IsFloat != 0:
			return "0.0"
		}
		return "nil"
	case *types.Slice:
		return "(mk-slice nil 0 0)"
	case *types.Struct:
		sn := c.structSort(t)
		if u.NumFields() == 0 {
			return "mk_" + sn
		}
		var fs []string
		for i := 0; i < u.NumFields(); i++ {
			fs = append(fs, c.zero(u.Field(i).Type()))
		}
		return fmt.Sprintf("(mk_%s %s)", sn, strings.Join(fs, " "))
	case *types.Array:
		return fmt.Sprintf("((as const %s) %s)", c.arraySort(t, u), c.zero(u.Elem()))
	}
	return "nil"
}

// findConstGlobals: a package-level variable of the module whose only write anywhere in the module is the
// constant store in its package initialiser, and whose address is used for nothing but loads, is a constant.
func (w *world) findConstGlobals() {
	w.constGlobals = map[*ssa.Global]*ssa.Const{}
	initStore := map[*ssa.Global]*ssa.Const{}
	bad := map[*ssa.Global]bool{}
	for _, fn := range w.funcs {
		isInit := fn.Name() == "init" && fn.Signature.Recv() == nil
		for _, b := range fn.Blocks {
			for _, ins := range b.Instrs {
				switch x := ins.(type) {
				case *ssa.Store:
					if g, ok := x.Addr.(*ssa.Global); ok {
						if c, isC := x.Val.(*ssa.Const); isC && isInit {
							if _, dup := initStore[g]; dup {
								bad[g] = true
							}
							initStore[g] = c
						} else {
							bad[g] = true
						}
						if g2, ok2 := x.Val.(*ssa.Global); ok2 {
							bad[g2] = true
						}
						continue
					}
				case *ssa.UnOp:
					if _, ok := x.X.(*ssa.Global); ok {
						continue
					}
				}
				for _, op := range ins.Operands(nil) {
					if op != nil && *op != nil {
						if g, ok := (*op).(*ssa.Global); ok {
							bad[g] = true
						}
					}
				}
			}
		}
	}
	// the synthetic package initialisers are not in w.funcs when they have no source; scan them too
	for path, p := range w.pkgs {
		if !w.inModule(path) {
			continue
		}
		if initFn := p.Func("init"); initFn != nil {
			for _, b := range initFn.Blocks {
				for _, ins := range b.Instrs {
					if st, ok := ins.(*ssa.Store); ok {
						if g, ok := st.Addr.(*ssa.Global); ok {
							if c, isC := st.Val.(*ssa.Const); isC {
								if prev, dup := initStore[g]; dup && prev != c {
									bad[g] = true
								}
								initStore[g] = c
							} else {
								bad[g] = true
							}
						}
					}
				}
			}
		}
	}
	for g, c := range initStore {
		if !bad[g] && g.Pkg != nil && w.inModule(g.Pkg.Pkg.Path()) {
			w.constGlobals[g] = c
		}
	}
}
