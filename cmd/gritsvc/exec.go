package main

// Instruction semantics for the VC generator.

import (
	"fmt"
	"go/token"
	"go/types"
	"strings"

	"golang.org/x/tools/go/ssa"
)

func (fr *frame) oblPanic(b *ssa.BasicBlock, kind string, ins ssa.Instruction, bad string) {
	vc := fr.vc
	if !vc.safety {
		return
	}
	vc.nPanicSites[kind]++
	name := fmt.Sprintf("nopanic/%s#%d", kind, vc.nPanicSites[kind])
	if fr.inline {
		name += "@inl:" + fr.fn.Name()
	}
	vc.addObl(&obligation{Name: name, Kind: "nopanic", Goal: and(fr.cond[b], bad), Pos: vc.pos(ins.Pos()), Props: vc.safetyProps, Clause: ins.String(), Inputs: vc.inputTerms()})
}

// assumeOK records that execution continues only if cond holds (after a potential panic site).
func (fr *frame) assumeOK(b *ssa.BasicBlock, ok string) {
	fr.vc.c.assume(implies(fr.cond[b], ok))
}

// escapeAt updates the lineage information when a local object escapes through ins: if a reference to it is
// stored into another local object that has itself not escaped, that object joins the set (anything reaching
// the first must go through the second); otherwise the lineage is dropped.
func (fr *frame) escapeAt(st *state, ins ssa.Instruction) {
	if len(st.base) == 0 {
		return
	}
	if _, isRet := ins.(*ssa.Return); isRet {
		return
	}
	ei := fr.vc.ma.escape(fr.fn)
	for obj, escs := range ei.escapes {
		hit := false
		for _, e := range escs {
			if e == ins {
				hit = true
			}
		}
		if !hit {
			continue
		}
		ot, ok := fr.objTerm[obj]
		if !ok {
			continue
		}
		// a call that is executed in place is followed instruction by instruction instead
		if ci, isCall := ins.(*ssa.Call); isCall {
			if callee := ci.Call.StaticCallee(); callee != nil && !ci.Call.IsInvoke() && fr.willInline(callee) {
				continue
			}
		}
		var into *baseObj
		if s, isStore := ins.(*ssa.Store); isStore {
			_, root := fr.vc.ma.valueRoot(s.Addr, map[*ssa.BasicBlock]bool{}, 0)
			if root != nil && isLocalAllocation(root) && ei.safeStore(s, root) {
				if t2, ok2 := fr.objTerm[root]; ok2 {
					into = &t2
				}
			}
		}
		for k, b := range st.base {
			has := false
			for _, o := range b.objs {
				if o.term == ot.term {
					has = true
				}
			}
			if !has {
				continue
			}
			if into == nil {
				// from here on the object can be reached from the heap: the lineage survives only as the weaker, type-based
				// statement (see baseObj.escaped)
				for i := range b.objs {
					if b.objs[i].term == ot.term {
						b.objs[i].escaped = true
					}
				}
				st.base[k] = b
				continue
			}
			dup := false
			for _, o := range b.objs {
				if o.term == into.term {
					dup = true
				}
			}
			if !dup {
				b.objs = append(b.objs, *into)
				st.base[k] = b
			}
		}
	}
}

func (fr *frame) block(b *ssa.BasicBlock, st *state) {
	vc := fr.vc
	c := vc.c
	for _, ins := range b.Instrs {
		fr.escapeAt(st, ins)
		switch x := ins.(type) {
		case *ssa.DebugRef:
		case *ssa.Phi:
			// handled at block entry
		case *ssa.Alloc:
			fr.doAlloc(b, st, x)
		case *ssa.Store:
			fr.doStore(b, st, x)
		case *ssa.UnOp:
			fr.doUnOp(b, st, x)
		case *ssa.BinOp:
			fr.doBinOp(b, st, x)
		case *ssa.FieldAddr:
			base := fr.val(x.X)
			if a := rootAlloc(x.X); a == nil || !fr.regs[a] {
				if _, isAlloc := x.X.(*ssa.Alloc); !isAlloc {
					if _, isFA := x.X.(*ssa.FieldAddr); !isFA {
						if _, isIA := x.X.(*ssa.IndexAddr); !isIA {
							fr.oblPanic(b, "nil", x, fmt.Sprintf("(= %s nil)", base))
							fr.assumeOK(b, fmt.Sprintf("(distinct %s nil)", base))
						}
					}
				}
			}
			stt := x.X.Type().Underlying().(*types.Pointer).Elem()
			fr.vals[x] = fmt.Sprintf("(fld %s %d)", base, vc.w.fieldID(stt, x.Field))
		case *ssa.Field:
			sn := c.structSort(x.X.Type())
			f := x.X.Type().Underlying().(*types.Struct).Field(x.Field)
			fr.define(x, fmt.Sprintf("(%s_%s %s)", sn, mangle(f.Name()), fr.val(x.X)))
		case *ssa.IndexAddr:
			fr.doIndexAddr(b, st, x)
		case *ssa.Index:
			// array or string value index
			xv, iv := fr.val(x.X), fr.val(x.Index)
			if c.sortOf(x.X.Type()) == "String" {
				fr.oblPanic(b, "index", x, fmt.Sprintf("(not (and (<= 0 %s) (< %s (str.len %s))))", iv, iv, xv))
				fr.define(x, fmt.Sprintf("(str.to_code (str.at %s %s))", xv, iv))
			} else {
				fr.define(x, fmt.Sprintf("(select %s %s)", xv, iv))
			}
		case *ssa.Slice:
			fr.doSlice(b, st, x)
		case *ssa.MakeSlice:
			fr.doMakeSlice(b, st, x)
		case *ssa.MakeMap:
			r := fr.newObj(st, x, 0)
			md, mv, mc := c.mapKeys(x.Type())
			mt := x.Type().Underlying().(*types.Map)
			ks := c.sortOf(mt.Key())
			vc.assumeG(fmt.Sprintf("(= (select %s %s) ((as const (Array %s %s)) %s))", c.heapGet(st, mv), r, ks, c.sortOf(mt.Elem()), c.zero(mt.Elem())))
			vc.assumeG(fmt.Sprintf("(= (select %s %s) ((as const (Array %s Bool)) false))", c.heapGet(st, md), r, ks))
			vc.assumeG(fmt.Sprintf("(= (select %s %s) 0)", c.heapGet(st, mc), r))
		case *ssa.MakeChan:
			fr.newObj(st, x, 0)
		case *ssa.MakeClosure:
			r := fr.newObj(st, x, 0)
			fn := x.Fn.(*ssa.Function)
			vc.closures[r] = closureInfo{fn: fn, mk: x, fr: fr}
			vc.assumeG(fmt.Sprintf("(= (tyof %s) %d)", r, -1000-vc.closureID(fn)))
		case *ssa.MakeInterface:
			if pt, isPtr := x.X.Type().Underlying().(*types.Pointer); isPtr {
				fr.vals[x] = fr.val(x.X)
				// the dynamic type of the interface value is the static type of the pointer put into it
				if _, isStruct := pt.Elem().Underlying().(*types.Struct); isStruct {
					vc.assumeG(fmt.Sprintf("(=> (distinct %s nil) (= (tyof %s) %d))", fr.val(x.X), fr.val(x.X), vc.w.typeID(pt.Elem())))
				}
			} else {
				// boxed non-pointer value: a fresh object
				r := fr.newObj(st, x, 0)
				vc.assumeG(fmt.Sprintf("(= (tyof %s) %d)", r, vc.w.typeID(x.X.Type())))
				if vc.boxed == nil {
					vc.boxed = map[string]string{}
				}
				vc.boxed[r] = fr.val(x.X)
			}
		case *ssa.ChangeInterface:
			fr.vals[x] = fr.val(x.X)
		case *ssa.ChangeType:
			fr.vals[x] = fr.val(x.X)
		case *ssa.Convert:
			fr.doConvert(b, st, x)
		case *ssa.TypeAssert:
			fr.doTypeAssert(b, st, x)
		case *ssa.Extract:
			if comps, ok := fr.tuples[x.Tuple]; ok && x.Index < len(comps) {
				fr.vals[x] = comps[x.Index]
			} else {
				fr.havocVal(x, st)
			}
		case *ssa.Lookup:
			fr.doLookup(b, st, x)
		case *ssa.MapUpdate:
			fr.doMapUpdate(b, st, x)
		case *ssa.Range:
			if _, ok := x.X.Type().Underlying().(*types.Map); ok {
				k := fr.iterKey(x)
				ks := arrayKeySort(c.heapSorts[k])
				st.heap[k] = fmt.Sprintf("((as const (Array %s Bool)) false)", ks)
			} else {
				c.unsup("range over " + x.X.Type().String())
			}
		case *ssa.Next:
			fr.doNext(b, st, x)
		case *ssa.Call:
			fr.doCall(b, st, x, x.Common(), x)
		case *ssa.Go:
			c.note("go statement: the spawned call is not given an interleaving semantics (precondition checked, effects not modelled)")
			fr.callsiteObls(b, st, x, x.Common()) // a `go f(...)` is a call site of f for call-site clauses
			fr.doSpawn(b, st, x)
		case *ssa.Defer:
			fr.deferred = append(fr.deferred, x)
		case *ssa.RunDefers:
			for i := len(fr.deferred) - 1; i >= 0; i-- {
				d := fr.deferred[i]
				if !d.Block().Dominates(b) {
					c.unsup("conditional defer")
				}
				fr.doCall(b, st, d, d.Common(), nil)
			}
		case *ssa.Send:
			c.note("channel send abstracted (no blocking/interleaving semantics); the ghost counter sent[ch] counts the sends")
			vc.nSends++
			if _, ok := vc.w.db.Ghosts["sent"]; ok && vc.ensureKey("G_sent") {
				cur := c.heapGet(st, "G_sent")
				ch := fr.val(x.Chan)
				st.heap["G_sent"] = fmt.Sprintf("(store %s %s (+ (select %s %s) 1))", cur, ch, cur, ch)
			}
			// lastSent[ch]: the value most recently sent on ch (declared per element type by the contracts that use it)
			for _, gk := range fr.lastSentKeys(st, x.X.Type()) {
				cur := c.heapGet(st, gk)
				st.heap[gk] = fmt.Sprintf("(store %s %s %s)", cur, fr.val(x.Chan), fr.val(x.X))
			}
		case *ssa.Select:
			c.note("select abstracted: nondeterministic choice, received values unconstrained")
			fr.havocVal(x, st)
			// the chosen case index lies in [0, n) for a blocking select and in [-1, n) otherwise
			if comps, ok := fr.tuples[x]; ok && len(comps) > 0 {
				lo := 0
				if !x.Blocking {
					lo = -1
				}
				vc.assumeG(fmt.Sprintf("(and (>= %s %s) (< %s %d))", comps[0], smtInt(int64(lo)), comps[0], len(x.States)))
				// a send case that is chosen is a send: the ghosts sent / lastSent record it
				for i, sc := range x.States {
					if sc.Dir != types.SendOnly {
						continue
					}
					chosen := fmt.Sprintf("(= %s %d)", comps[0], i)
					ch := fr.val(sc.Chan)
					if _, ok := vc.w.db.Ghosts["sent"]; ok && vc.ensureKey("G_sent") {
						cur := c.heapGet(st, "G_sent")
						st.heap["G_sent"] = fmt.Sprintf("(ite %s (store %s %s (+ (select %s %s) 1)) %s)", chosen, cur, ch, cur, ch, cur)
					}
					for _, gk := range fr.lastSentKeys(st, sc.Send.Type()) {
						cur := c.heapGet(st, gk)
						st.heap[gk] = fmt.Sprintf("(ite %s (store %s %s %s) %s)", chosen, cur, ch, fr.val(sc.Send), cur)
					}
				}
			}
		case *ssa.If, *ssa.Jump:
		case *ssa.Return:
			var rs []string
			for _, r := range x.Results {
				rs = append(rs, fr.val(r))
			}
			fr.rets = append(fr.rets, retInfo{block: b, pos: fr.vc.pos(x.Pos()), cond: fr.cond[b], st: st.clone(), results: rs})
		case *ssa.Panic:
			fr.oblPanic(b, "explicit", x, "true")
		default:
			c.unsup(fmt.Sprintf("instruction %T", ins))
			if v, ok := ins.(ssa.Value); ok {
				fr.havocVal(v, st)
			}
		}
	}
	fr.out[b] = st
}

func (fr *frame) newObj(st *state, v ssa.Value, tyid int) string {
	c := fr.vc.c
	n := fr.name(v)
	c.declConst(n, "Ref")
	c.objNames[n] = true
	c.assume(fmt.Sprintf("(= %s (obj %s))", n, st.alloc))
	if tyid != 0 {
		fr.vc.assumeG(fmt.Sprintf("(= (tyof %s) %d)", n, tyid))
	}
	na := c.freshConst("A", "Int")
	c.assume(fmt.Sprintf("(= %s (+ %s 1))", na, st.alloc))
	st.alloc = na
	if v != nil {
		fr.vals[v] = n
	}
	return n
}

func (fr *frame) doAlloc(b *ssa.BasicBlock, st *state, x *ssa.Alloc) {
	vc := fr.vc
	c := vc.c
	el := x.Type().Underlying().(*types.Pointer).Elem()
	if fr.regs[x] {
		k := fr.regKey(x)
		vc.localSorts[k] = c.sortOf(el)
		st.locals[k] = c.zero(el)
		fr.vals[x] = "reg!" + k
		return
	}
	tyid := 0
	if _, ok := el.Underlying().(*types.Struct); ok {
		tyid = vc.w.typeID(el)
	}
	r := fr.newObj(st, x, tyid)
	fr.objTerm[x] = baseObj{term: fmt.Sprintf("(oid %s)", r), typ: el}
	// text buffer model: a fresh bytes.Buffer (zero value) holds the empty text
	if el.String() == "bytes.Buffer" {
		if _, ok := vc.w.db.Ghosts["bufstr"]; ok && vc.ensureKey("G_bufstr") {
			vc.assumeG(fmt.Sprintf("(= (select %s %s) \"\")", c.heapGet(st, "G_bufstr"), r))
		}
	}
	// allocation does not change the heap arrays: the cells of the fresh object are assumed to hold zero values
	if at, ok := el.Underlying().(*types.Array); ok {
		if at.Len() <= 16 {
			for i := int64(0); i < at.Len(); i++ {
				fr.assumeZeroAt(st, fmt.Sprintf("(elem %s %d)", r, i), at.Elem(), x, fmt.Sprintf("e%d/", i))
			}
		} else {
			c.unsup("large array allocation")
		}
		return
	}
	fr.assumeZeroAt(st, r, el, x, "")
}

// assumeZeroAt: the cells of a fresh object hold zero values, except those written by an initialising store.
func (fr *frame) assumeZeroAt(st *state, a string, t types.Type, alloc *ssa.Alloc, prefix string) {
	c := fr.vc.c
	var rec func(t types.Type, addr, path string)
	rec = func(t types.Type, addr, path string) {
		if stt, ok := t.Underlying().(*types.Struct); ok {
			for i := 0; i < stt.NumFields(); i++ {
				rec(stt.Field(i).Type(), fmt.Sprintf("(fld %s %d)", addr, fr.vc.w.fieldID(t, i)), path+fmt.Sprintf("f%d/", i))
			}
			return
		}
		if _, isArr := t.Underlying().(*types.Array); isArr {
			return
		}
		if alloc != nil && fr.inits.covered(alloc, path) {
			return
		}
		fr.vc.assumeG(fmt.Sprintf("(= %s %s)", c.loadAt(st, addr, t), c.zero(t)))
	}
	rec(t, a, prefix)
}

// regAccess resolves an address rooted at a register local: returns key, selector path.
func (fr *frame) regAccess(addr ssa.Value) (key string, path []regStep, ok bool) {
	var steps []regStep
	v := addr
	for {
		switch x := v.(type) {
		case *ssa.Alloc:
			if !fr.regs[x] {
				return "", nil, false
			}
			// reverse steps
			for i, j := 0, len(steps)-1; i < j; i, j = i+1, j-1 {
				steps[i], steps[j] = steps[j], steps[i]
			}
			return fr.regKey(x), steps, true
		case *ssa.FieldAddr:
			stt := x.X.Type().Underlying().(*types.Pointer).Elem()
			steps = append(steps, regStep{st: stt, field: x.Field})
			v = x.X
		default:
			return "", nil, false
		}
	}
}

type regStep struct {
	st    types.Type
	field int
}

func (fr *frame) regLoad(st *state, key string, path []regStep) string {
	c := fr.vc.c
	v := st.locals[key]
	for _, s := range path {
		sn := c.structSort(s.st)
		f := s.st.Underlying().(*types.Struct).Field(s.field)
		v = fmt.Sprintf("(%s_%s %s)", sn, mangle(f.Name()), v)
	}
	return v
}

func (fr *frame) regStore(st *state, key string, path []regStep, val string) {
	c := fr.vc.c
	var upd func(cur string, path []regStep) string
	upd = func(cur string, path []regStep) string {
		if len(path) == 0 {
			return val
		}
		s := path[0]
		sn := c.structSort(s.st)
		stt := s.st.Underlying().(*types.Struct)
		var fs []string
		for i := 0; i < stt.NumFields(); i++ {
			sel := fmt.Sprintf("(%s_%s %s)", sn, mangle(stt.Field(i).Name()), cur)
			if i == s.field {
				fs = append(fs, upd(sel, path[1:]))
			} else {
				fs = append(fs, sel)
			}
		}
		return fmt.Sprintf("(mk_%s %s)", sn, strings.Join(fs, " "))
	}
	nv := upd(st.locals[key], path)
	// keep terms small
	n := c.freshConst("L", fr.vc.localSorts[key])
	c.assume(fmt.Sprintf("(= %s %s)", n, nv))
	st.locals[key] = n
}

func (fr *frame) needNilCheck(addr ssa.Value) bool {
	switch addr.(type) {
	case *ssa.Alloc, *ssa.FieldAddr, *ssa.IndexAddr, *ssa.Global:
		return false
	}
	return true
}

func (fr *frame) doStore(b *ssa.BasicBlock, st *state, x *ssa.Store) {
	c := fr.vc.c
	if key, path, ok := fr.regAccess(x.Addr); ok {
		fr.regStore(st, key, path, fr.val(x.Val))
		return
	}
	a := fr.val(x.Addr)
	if fr.inits.stores[x] {
		// initialising store: a fact about the current array, no new version
		v := fr.val(x.Val)
		for _, lf := range c.leaves(x.Val.Type()) {
			fr.vc.assumeG(fmt.Sprintf("(= %s %s)", c.loadAt(st, addrPath(a, lf.fids), lf.typ), applySels(v, lf.sels)))
		}
		return
	}
	if fr.needNilCheck(x.Addr) {
		fr.oblPanic(b, "nil", x, fmt.Sprintf("(= %s nil)", a))
		fr.assumeOK(b, fmt.Sprintf("(distinct %s nil)", a))
	}
	// lineage: a store into a local object that has not escaped leaves every spec term over other objects unchanged
	kind, root := fr.vc.ma.valueRoot(x.Addr, nil, 0)
	var objT baseObj
	if kind == rFresh || kind == rValue {
		_, root = fr.vc.ma.valueRoot(x.Addr, map[*ssa.BasicBlock]bool{}, 0) // resolve to the allocation itself
	}
	if root != nil && isLocalAllocation(root) {
		if o, ok := fr.objTerm[root]; ok {
			objT = o
			if !fr.vc.ma.escape(fr.fn).safeStore(x, root) {
				objT.escaped = true // its address was handed out before: the lineage lemma then needs type unreachability
			}
		}
	}
	var before map[string]string
	var touched []string
	for _, lf := range c.leaves(x.Val.Type()) {
		for _, alt := range c.leafKeys(addrPath(a, lf.fids), lf.typ) {
			touched = append(touched, alt.key)
		}
	}
	if objT.term != "" {
		before = map[string]string{}
		for _, k := range touched {
			before[k] = c.heapGet(st, k)
		}
	}
	c.storeAt(st, a, x.Val.Type(), fr.val(x.Val))
	for _, k := range touched {
		if objT.term == "" {
			delete(st.base, k)
			continue
		}
		if b, ok := st.base[k]; ok {
			found := false
			for i, o := range b.objs {
				if o.term == objT.term {
					found = true
					if objT.escaped {
						b.objs[i].escaped = true
					}
				}
			}
			if !found {
				b.objs = append(b.objs, objT)
			}
			st.base[k] = b
		} else {
			st.base[k] = heapBase{term: before[k], objs: []baseObj{objT}}
		}
	}
	fr.compact(st)
}

// compact replaces large heap terms by fresh constants to keep scripts small.
func (fr *frame) compact(st *state) {
	c := fr.vc.c
	for k, t := range st.heap {
		if len(t) > 200 {
			n := c.freshConst(k, c.heapSorts[k])
			c.assume(fmt.Sprintf("(= %s %s)", n, t))
			st.heap[k] = n
		}
	}
}

func (fr *frame) doUnOp(b *ssa.BasicBlock, st *state, x *ssa.UnOp) {
	c := fr.vc.c
	switch x.Op {
	case token.MUL:
		if g, ok := x.X.(*ssa.Global); ok {
			if cv, isConst := fr.vc.w.constGlobals[g]; isConst {
				fr.vals[x] = fr.constTerm(cv)
				fr.vc.assumed["the package-level variable "+g.String()+" is never written after its constant initialisation (module-wide scan)"] = true
				return
			}
		}
		if key, path, ok := fr.regAccess(x.X); ok {
			fr.define(x, fr.regLoad(st, key, path))
			return
		}
		a := fr.val(x.X)
		if fr.needNilCheck(x.X) {
			fr.oblPanic(b, "nil", x, fmt.Sprintf("(= %s nil)", a))
			fr.assumeOK(b, fmt.Sprintf("(distinct %s nil)", a))
		}
		n := fr.define(x, c.loadAt(st, a, x.Type()))
		fr.vc.typed(n, x.Type(), st)
	case token.NOT:
		fr.define(x, not(fr.val(x.X)))
	case token.SUB:
		fr.define(x, fmt.Sprintf("(- %s)", fr.val(x.X)))
	case token.ARROW:
		c.note("channel receive abstracted: received value unconstrained")
		fr.havocVal(x, st)
	default:
		c.unsup("unary " + x.Op.String())
		fr.havocVal(x, st)
	}
}

func (fr *frame) doBinOp(b *ssa.BasicBlock, st *state, x *ssa.BinOp) {
	c := fr.vc.c
	l, r := fr.val(x.X), fr.val(x.Y)
	srt := c.sortOf(x.X.Type())
	var t string
	switch x.Op {
	case token.EQL:
		t = fmt.Sprintf("(= %s %s)", l, r)
	case token.NEQ:
		t = fmt.Sprintf("(not (= %s %s))", l, r)
	case token.LSS, token.LEQ, token.GTR, token.GEQ:
		op := x.Op.String()
		if srt == "String" {
			switch x.Op {
			case token.LSS:
				t = fmt.Sprintf("(str.< %s %s)", l, r)
			case token.LEQ:
				t = fmt.Sprintf("(str.<= %s %s)", l, r)
			case token.GTR:
				t = fmt.Sprintf("(str.< %s %s)", r, l)
			default:
				t = fmt.Sprintf("(str.<= %s %s)", r, l)
			}
		} else {
			t = fmt.Sprintf("(%s %s %s)", op, l, r)
		}
	case token.ADD:
		if srt == "String" {
			t = fmt.Sprintf("(str.++ %s %s)", l, r)
		} else {
			t = fmt.Sprintf("(+ %s %s)", l, r)
		}
	case token.SUB:
		t = fmt.Sprintf("(- %s %s)", l, r)
	case token.MUL:
		t = fmt.Sprintf("(* %s %s)", l, r)
	case token.QUO:
		fr.oblPanic(b, "div0", x, fmt.Sprintf("(= %s 0)", r))
		// Go truncates towards zero; SMT div floors: exact for non-negative operands only
		t = fmt.Sprintf("(ite (and (>= %s 0) (> %s 0)) (div %s %s) %s)", l, r, l, r, c.freshConst("quo", "Int"))
	case token.REM:
		fr.oblPanic(b, "div0", x, fmt.Sprintf("(= %s 0)", r))
		t = fmt.Sprintf("(ite (and (>= %s 0) (> %s 0)) (mod %s %s) %s)", l, r, l, r, c.freshConst("rem", "Int"))
	case token.LAND, token.LOR:
		t = fmt.Sprintf("(%s %s %s)", map[token.Token]string{token.LAND: "and", token.LOR: "or"}[x.Op], l, r)
	default:
		if srt == "Bool" && (x.Op == token.AND || x.Op == token.OR) {
			t = fmt.Sprintf("(%s %s %s)", map[token.Token]string{token.AND: "and", token.OR: "or"}[x.Op], l, r)
			break
		}
		c.note("bit operation " + x.Op.String() + " abstracted to an unconstrained value")
		fr.havocVal(x, st)
		return
	}
	fr.define(x, t)
}

func (fr *frame) doIndexAddr(b *ssa.BasicBlock, st *state, x *ssa.IndexAddr) {
	xv, iv := fr.val(x.X), fr.val(x.Index)
	switch u := x.X.Type().Underlying().(type) {
	case *types.Slice:
		fr.oblPanic(b, "index", x, fmt.Sprintf("(not (and (<= 0 %s) (< %s (slen %s))))", iv, iv, xv))
		fr.assumeOK(b, fmt.Sprintf("(and (<= 0 %s) (< %s (slen %s)))", iv, iv, xv))
		fr.vals[x] = fmt.Sprintf("(selem %s %s)", xv, iv)
	case *types.Pointer:
		at := u.Elem().Underlying().(*types.Array)
		if fr.needNilCheck(x.X) {
			fr.oblPanic(b, "nil", x, fmt.Sprintf("(= %s nil)", xv))
		}
		if _, isConst := x.Index.(*ssa.Const); !isConst {
			fr.oblPanic(b, "index", x, fmt.Sprintf("(not (and (<= 0 %s) (< %s %d)))", iv, iv, at.Len()))
		}
		fr.vals[x] = fmt.Sprintf("(elem %s %s)", xv, iv)
	default:
		fr.vc.c.unsup("IndexAddr on " + x.X.Type().String())
		fr.havocVal(x, st)
	}
}

func (fr *frame) doSlice(b *ssa.BasicBlock, st *state, x *ssa.Slice) {
	c := fr.vc.c
	xv := fr.val(x.X)
	lo := "0"
	if x.Low != nil {
		lo = fr.val(x.Low)
	}
	switch u := x.X.Type().Underlying().(type) {
	case *types.Slice:
		hi := fmt.Sprintf("(slen %s)", xv)
		if x.High != nil {
			hi = fr.val(x.High)
		}
		// cap is modelled as len: slicing beyond len (within cap) is reported as out of range
		fr.oblPanic(b, "slice", x, fmt.Sprintf("(not (and (<= 0 %s) (<= %s %s) (<= %s (slen %s))))", lo, lo, hi, hi, xv))
		fr.define(x, fmt.Sprintf("(mk-slice (sdata %s) (+ (soff %s) %s) (- %s %s))", xv, xv, lo, hi, lo))
	case *types.Pointer:
		at := u.Elem().Underlying().(*types.Array)
		hi := fmt.Sprintf("%d", at.Len())
		if x.High != nil {
			hi = fr.val(x.High)
		}
		nm := fr.define(x, fmt.Sprintf("(mk-slice %s %s (- %s %s))", xv, lo, hi, lo))
		if x.Low == nil && x.High == nil && at.Len() <= 4 {
			// a whole small array as a slice (the argument list of a variadic call): bounded quantifiers over it are
			// expanded element by element (see trans, cQuant)
			if c.constLen == nil {
				c.constLen = map[string]int{}
			}
			c.constLen[nm] = int(at.Len())
		}
	case *types.Basic:
		hi := fmt.Sprintf("(str.len %s)", xv)
		if x.High != nil {
			hi = fr.val(x.High)
		}
		fr.oblPanic(b, "slice", x, fmt.Sprintf("(not (and (<= 0 %s) (<= %s %s) (<= %s (str.len %s))))", lo, lo, hi, hi, xv))
		fr.define(x, fmt.Sprintf("(str.substr %s %s (- %s %s))", xv, lo, hi, lo))
	default:
		c.unsup("slice of " + x.X.Type().String())
		fr.havocVal(x, st)
	}
}

// zeroRegion assumes that all element cells of the fresh backing store r (elements of type el) hold zero values.
func (fr *frame) zeroRegion(st *state, el types.Type, r string) {
	c := fr.vc.c
	for _, lf := range c.leaves(el) {
		p := addrPath(fmt.Sprintf("(selem %s zr!i)", r), lf.fids)
		k := c.leafKeys(p, lf.typ)[0].key
		H := c.heapGet(st, k)
		fr.vc.assumeG(fmt.Sprintf("(forall ((zr!i Int)) (! (= (select %s %s) %s) :pattern ((select %s %s))))", H, p, c.zero(lf.typ), H, p))
	}
}

func (fr *frame) doMakeSlice(b *ssa.BasicBlock, st *state, x *ssa.MakeSlice) {
	c := fr.vc.c
	ln := fr.val(x.Len)
	fr.oblPanic(b, "makeslice", x, fmt.Sprintf("(< %s 0)", ln))
	c.fresh++
	rn := fmt.Sprintf("%s!d%d", fr.name(x), c.fresh)
	c.declConst(rn, "Ref")
	c.objNames[rn] = true
	c.assume(fmt.Sprintf("(= %s (obj %s))", rn, st.alloc))
	na := c.freshConst("A", "Int")
	c.assume(fmt.Sprintf("(= %s (+ %s 1))", na, st.alloc))
	st.alloc = na
	el := x.Type().Underlying().(*types.Slice).Elem()
	res := fr.define(x, fmt.Sprintf("(mk-slice %s 0 %s)", rn, ln))
	fr.objTerm[x] = baseObj{term: fmt.Sprintf("(oid %s)", rn), typ: el, backing: true}
	fr.vc.assumeG(fmt.Sprintf("(= (tyof %s) (- 2000))", rn))
	fr.zeroRegion(st, el, res)
}

func (fr *frame) doAppend(b *ssa.BasicBlock, st *state, x ssa.Value, args []ssa.Value) {
	c := fr.vc.c
	s, t := fr.val(args[0]), fr.val(args[1])
	el := args[0].Type().Underlying().(*types.Slice).Elem()
	c.fresh++
	rn := fmt.Sprintf("%s!d%d", fr.name(x), c.fresh)
	c.declConst(rn, "Ref")
	c.objNames[rn] = true
	c.assume(fmt.Sprintf("(= %s (obj %s))", rn, st.alloc))
	na := c.freshConst("A", "Int")
	c.assume(fmt.Sprintf("(= %s (+ %s 1))", na, st.alloc))
	st.alloc = na
	if c.sortOf(args[1].Type()) == "String" {
		c.unsup("append(bytes, string...)")
		fr.havocVal(x, st)
		return
	}
	res := fr.define(x, fmt.Sprintf("(mk-slice %s 0 (+ (slen %s) (slen %s)))", rn, s, t))
	fr.objTerm[x] = baseObj{term: fmt.Sprintf("(oid %s)", rn), typ: el, backing: true}
	fr.vc.assumeG(fmt.Sprintf("(= (tyof %s) (- 2000))", rn))
	for _, lf := range c.leaves(el) {
		p1 := addrPath(fmt.Sprintf("(selem %s ap!i)", res), lf.fids)
		k := c.leafKeys(p1, lf.typ)[0].key
		H := c.heapGet(st, k)
		s1 := addrPath(fmt.Sprintf("(selem %s ap!i)", s), lf.fids)
		fr.vc.assumeG(fmt.Sprintf("(forall ((ap!i Int)) (! (=> (and (<= 0 ap!i) (< ap!i (slen %s))) (= (select %s %s) (select %s %s))) :pattern ((select %s %s)) :pattern ((select %s %s))))", s, H, p1, H, s1, H, p1, H, s1))
		p2 := addrPath(fmt.Sprintf("(selem %s (+ (slen %s) ap!i))", res, s), lf.fids)
		s2 := addrPath(fmt.Sprintf("(selem %s ap!i)", t), lf.fids)
		fr.vc.assumeG(fmt.Sprintf("(forall ((ap!i Int)) (! (=> (and (<= 0 ap!i) (< ap!i (slen %s))) (= (select %s %s) (select %s %s))) :pattern ((select %s %s))))", t, H, p2, H, s2, H, s2))
		// the common single-element case, instantiated explicitly
		p20 := addrPath(fmt.Sprintf("(selem %s (slen %s))", res, s), lf.fids)
		s20 := addrPath(fmt.Sprintf("(selem %s 0)", t), lf.fids)
		fr.vc.assumeG(fmt.Sprintf("(=> (>= (slen %s) 1) (= (select %s %s) (select %s %s)))", t, H, p20, H, s20))
	}
	c.note("append always reallocates (aliasing between the result of append and its argument's spare capacity is not modelled)")
}

func (fr *frame) doConvert(b *ssa.BasicBlock, st *state, x *ssa.Convert) {
	c := fr.vc.c
	from, to := c.sortOf(x.X.Type()), c.sortOf(x.Type())
	switch {
	case from == to && from != "Slice":
		fr.vals[x] = fr.val(x.X)
		if bt, ok := x.Type().Underlying().(*types.Basic); ok && from == "Int" {
			// integer width changes are treated as the identity (mathematical integers)
			_ = bt
		}
	case from == "Int" && to == "String":
		// string(rune): the one-character string of that code point (runes obtained from the text are valid code points)
		fr.define(x, fmt.Sprintf("(str.from_code %s)", fr.val(x.X)))
		c.note("string(rune) is the one-character string of the code point (invalid runes, which Go maps to U+FFFD, are not distinguished)")
	case from == "Int" && to == "Real":
		fr.define(x, fmt.Sprintf("(to_real %s)", fr.val(x.X)))
	default:
		c.note(fmt.Sprintf("conversion %s -> %s abstracted to an unconstrained value", x.X.Type(), x.Type()))
		fr.havocVal(x, st)
	}
}

func (fr *frame) isTypeFormula(v string, t types.Type) string {
	w := fr.vc.w
	switch u := t.Underlying().(type) {
	case *types.Pointer:
		return fmt.Sprintf("(and (distinct %s nil) (= (tyof %s) %d))", v, v, w.typeID(u.Elem()))
	case *types.Interface:
		if u.NumMethods() == 0 {
			return fmt.Sprintf("(distinct %s nil)", v)
		}
		if named, ok := t.(*types.Named); ok && named.Obj().Pkg() != nil {
			key := named.Obj().Pkg().Path() + "." + named.Obj().Name()
			if impls := w.impls[key]; len(impls) > 0 {
				var alts []string
				for _, im := range impls {
					alts = append(alts, fmt.Sprintf("(= (tyof %s) %d)", v, w.typeID(im)))
				}
				return and(fmt.Sprintf("(distinct %s nil)", v), or(alts...))
			}
		}
		return ""
	default:
		return fmt.Sprintf("(and (distinct %s nil) (= (tyof %s) %d))", v, v, w.typeID(t))
	}
}

func (fr *frame) doTypeAssert(b *ssa.BasicBlock, st *state, x *ssa.TypeAssert) {
	c := fr.vc.c
	v := fr.val(x.X)
	is := fr.isTypeFormula(v, x.AssertedType)
	if is == "" {
		c.unsup("type assertion to " + x.AssertedType.String())
		fr.havocVal(x, st)
		return
	}
	_, isPtr := x.AssertedType.Underlying().(*types.Pointer)
	_, isIface := x.AssertedType.Underlying().(*types.Interface)
	val := v
	if !isPtr && !isIface {
		// unboxing of a non-pointer value
		if bx, ok := fr.vc.boxed[v]; ok {
			val = bx
		} else {
			val = c.freshConst("unbox", c.sortOf(x.AssertedType))
		}
	}
	if x.CommaOk {
		okn := c.freshConst(fr.name(x)+"_ok", "Bool")
		c.assume(fmt.Sprintf("(= %s %s)", okn, is))
		vn := c.freshConst(fr.name(x)+"_v", c.sortOf(x.AssertedType))
		c.assume(fmt.Sprintf("(= %s (ite %s %s %s))", vn, okn, val, c.zero(x.AssertedType)))
		fr.tuples[x] = []string{vn, okn}
		return
	}
	fr.oblPanic(b, "assert", x, not(is))
	fr.assumeOK(b, is)
	fr.vals[x] = val
}

func (fr *frame) doLookup(b *ssa.BasicBlock, st *state, x *ssa.Lookup) {
	c := fr.vc.c
	mt, ok := x.X.Type().Underlying().(*types.Map)
	if !ok {
		// string index
		xv, iv := fr.val(x.X), fr.val(x.Index)
		fr.oblPanic(b, "index", x, fmt.Sprintf("(not (and (<= 0 %s) (< %s (str.len %s))))", iv, iv, xv))
		fr.define(x, fmt.Sprintf("(str.to_code (str.at %s %s))", xv, iv))
		return
	}
	md, mv, _ := c.mapKeys(x.X.Type())
	m, k := fr.val(x.X), fr.val(x.Index)
	has := fmt.Sprintf("(and (distinct %s nil) (select (select %s %s) %s))", m, c.heapGet(st, md), m, k)
	val := fmt.Sprintf("(ite %s (select (select %s %s) %s) %s)", has, c.heapGet(st, mv), m, k, c.zero(mt.Elem()))
	if x.CommaOk {
		vn := c.freshConst(fr.name(x)+"_v", c.sortOf(mt.Elem()))
		c.assume(fmt.Sprintf("(= %s %s)", vn, val))
		okn := c.freshConst(fr.name(x)+"_ok", "Bool")
		c.assume(fmt.Sprintf("(= %s %s)", okn, has))
		fr.vc.typed(vn, mt.Elem(), st)
		fr.tuples[x] = []string{vn, okn}
		return
	}
	n := fr.define(x, val)
	fr.vc.typed(n, mt.Elem(), st)
}

func (fr *frame) mapInsert(st *state, mtyp types.Type, m, k, v string) {
	c := fr.vc.c
	md, mv, mc := c.mapKeys(mtyp)
	D, V, C := c.heapGet(st, md), c.heapGet(st, mv), c.heapGet(st, mc)
	st.heap[mc] = fmt.Sprintf("(store %s %s (+ (select %s %s) (ite (select (select %s %s) %s) 0 1)))", C, m, C, m, D, m, k)
	st.heap[md] = fmt.Sprintf("(store %s %s (store (select %s %s) %s true))", D, m, D, m, k)
	st.heap[mv] = fmt.Sprintf("(store %s %s (store (select %s %s) %s %s))", V, m, V, m, k, v)
	fr.compact(st)
}

func (fr *frame) mapDelete(st *state, mtyp types.Type, m, k string) {
	c := fr.vc.c
	md, _, mc := c.mapKeys(mtyp)
	D, C := c.heapGet(st, md), c.heapGet(st, mc)
	// delete on a nil map is a no-op: guarded by the caller
	st.heap[mc] = fmt.Sprintf("(store %s %s (- (select %s %s) (ite (select (select %s %s) %s) 1 0)))", C, m, C, m, D, m, k)
	st.heap[md] = fmt.Sprintf("(store %s %s (store (select %s %s) %s false))", D, m, D, m, k)
	fr.compact(st)
}

func (fr *frame) doMapUpdate(b *ssa.BasicBlock, st *state, x *ssa.MapUpdate) {
	m, k, v := fr.val(x.Map), fr.val(x.Key), fr.val(x.Value)
	fr.oblPanic(b, "nilmap", x, fmt.Sprintf("(= %s nil)", m))
	fr.assumeOK(b, fmt.Sprintf("(distinct %s nil)", m))
	fr.vc.c.cardFactsAt(st, x.Map.Type(), m)
	fr.mapInsert(st, x.Map.Type(), m, k, v)
}

func (fr *frame) doNext(b *ssa.BasicBlock, st *state, x *ssa.Next) {
	c := fr.vc.c
	rg, ok := x.Iter.(*ssa.Range)
	if !ok || x.IsString {
		c.unsup("next over string")
		fr.havocVal(x, st)
		return
	}
	mt := rg.X.Type().Underlying().(*types.Map)
	md, mv, mc := c.mapKeys(rg.X.Type())
	m := fr.val(rg.X)
	ik := fr.iterKey(rg)
	V := c.heapGet(st, ik)
	D := fmt.Sprintf("(select %s %s)", c.heapGet(st, md), m)
	ks, vs := c.sortOf(mt.Key()), c.sortOf(mt.Elem())
	okn := c.freshConst(fr.name(x)+"_ok", "Bool")
	kn := c.freshConst(fr.name(x)+"_k", ks)
	vn := c.freshConst(fr.name(x)+"_v", vs)
	bc := fr.cond[b]
	// visited ⊆ domain is maintained by construction only if the loop does not delete; assume the map is not nil when ok
	c.assume(implies(bc, fmt.Sprintf("(=> %s (and (distinct %s nil) (select %s %s) (not (select %s %s)) (= %s (select (select %s %s) %s))))", okn, m, D, kn, V, kn, vn, c.heapGet(st, mv), m, kn)))
	c.assume(implies(bc, fmt.Sprintf("(=> (not %s) (or (= %s nil) (forall ((it!k %s)) (! (=> (select %s it!k) (select %s it!k)) :pattern ((select %s it!k))))))", okn, m, ks, D, V, D)))
	_ = mc
	fr.vc.typed(vn, mt.Elem(), st)
	nv := c.freshConst(ik, c.heapSorts[ik])
	c.assume(fmt.Sprintf("(= %s (ite %s (store %s %s true) %s))", nv, okn, V, kn, V))
	st.heap[ik] = nv
	fr.tuples[x] = []string{okn, kn, vn}
}

// ---------------------------------------------------------------------------------------------
// Initialising stores: the first store into a cell of an object allocated in the same basic block, before the
// object can have been read or have escaped. Such a store is modelled as a fact about the current heap array
// ("the cell holds v") instead of a new array version, exactly like the zero-initialisation of an allocation.
// This keeps heap versions (and with them heap-dependent spec terms) stable across local construction of
// composite literals, spilled parameters and varargs arrays.

type initInfo struct {
	stores map[*ssa.Store]bool
	paths  map[*ssa.Alloc][]string // initialised paths ("f<fid>/" and "e<idx>/" steps)
}

func computeInitStores(fn *ssa.Function, regs map[*ssa.Alloc]bool) *initInfo {
	info := &initInfo{stores: map[*ssa.Store]bool{}, paths: map[*ssa.Alloc][]string{}}
	for _, b := range fn.Blocks {
		type drv struct {
			a    *ssa.Alloc
			path string
		}
		derived := map[ssa.Value]drv{}
		alive := map[*ssa.Alloc]bool{}
		for _, ins := range b.Instrs {
			switch x := ins.(type) {
			case *ssa.Alloc:
				if !regs[x] {
					alive[x] = true
					derived[x] = drv{x, ""}
				}
				continue
			case *ssa.FieldAddr:
				if d, ok := derived[x.X]; ok && alive[d.a] {
					derived[x] = drv{d.a, d.path + fmt.Sprintf("f%d/", x.Field)}
					continue
				}
			case *ssa.IndexAddr:
				if d, ok := derived[x.X]; ok && alive[d.a] {
					if c, isC := x.Index.(*ssa.Const); isC && c.Value != nil {
						derived[x] = drv{d.a, d.path + "e" + c.Value.ExactString() + "/"}
						continue
					}
				}
			case *ssa.Store:
				if d, ok := derived[x.Addr]; ok && alive[d.a] {
					if _, valDerived := derived[x.Val]; !valDerived {
						overlap := false
						for _, p := range info.paths[d.a] {
							if strings.HasPrefix(p, d.path) || strings.HasPrefix(d.path, p) {
								overlap = true
							}
						}
						if !overlap {
							info.stores[x] = true
							info.paths[d.a] = append(info.paths[d.a], d.path)
							continue
						}
					}
				}
			case *ssa.DebugRef:
				continue
			}
			// any other use of a derived value lets the object escape (or reads it)
			for _, op := range ins.Operands(nil) {
				if op == nil || *op == nil {
					continue
				}
				if d, ok := derived[*op]; ok {
					alive[d.a] = false
				}
			}
		}
	}
	return info
}

// leafInitialised reports whether the leaf reached by the given steps is covered by an initialising store.
func (ii *initInfo) covered(a *ssa.Alloc, leafPath string) bool {
	for _, p := range ii.paths[a] {
		if strings.HasPrefix(leafPath, p) {
			return true
		}
	}
	return false
}

// lastSentKeys: the ghosts named lastSent... (one per element type: lastSent for messages, lastSentCtl for control
// messages) that record sends of values of this type.
func (fr *frame) lastSentKeys(st *state, elem types.Type) []string {
	vc := fr.vc
	c := vc.c
	var out []string
	for _, name := range sortedKeys(vc.w.db.Ghosts) {
		if !strings.HasPrefix(name, "lastSent") {
			continue
		}
		gt := vc.w.db.Ghosts[name]
		pk := fr.fn.Pkg
		for p := fr.fn.Parent(); pk == nil && p != nil; p = p.Parent() {
			pk = p.Pkg
		}
		tr := &trans{c: c, vars: map[string]tvar{}, cur: st, old: st, depth: 1}
		if pk != nil {
			tr.pkg = pk.Pkg.Path()
		}
		var vt vtype
		resolved := func() (ok bool) {
			defer func() {
				if r := recover(); r != nil {
					if _, isTE := r.(transError); !isTE {
						panic(r)
					}
					ok = false // the ghost's element type is not visible from this package: no such channel here
				}
			}()
			vt = tr.resolveType(gt)
			return true
		}()
		if !resolved {
			continue
		}
		c.heapSorts["G_"+name] = vt.sort
		if vt.sort == fmt.Sprintf("(Array Ref %s)", c.sortOf(elem)) && vc.ensureKey("G_"+name) {
			out = append(out, "G_"+name)
		}
	}
	return out
}
