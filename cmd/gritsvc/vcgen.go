package main

// Verification-condition generation: symbolic execution of go/ssa with loop cutting, callee contracts,
// inlining of small contract-less helpers, heap/maps/slices, panic obligations.

import (
	"os"
	"fmt"
	"go/constant"
	"go/token"
	"go/types"
	"sort"
	"strings"

	"golang.org/x/tools/go/ssa"
)

type obligation struct {
	Func      string
	Name      string // full name: <func>/<kind>/<detail>
	Kind      string // ensures pre nopanic inv-entry inv-preserve variant lemma vacuity frame
	Label     string // e.g. C17.table
	Props     []string
	Goal      string
	NAssume   int
	ctx       *smtctx
	Pos       string
	ExpectSat bool
	Clause    string
	// result
	Status   string // discharged refuted unknown
	Via      string // the included property the obligation comes from (contracts.Includes)
	Solver   string
	Secs     float64
	Model    string
	Output   string
	Excused  string // known-finding id that excuses it
	Inputs   []string // terms to get-value on failure
	SizeB    int
	vc       *funcVC
	Splits   []string // case split (edge conditions of the nearest join) tried when the plain query is inconclusive
}

type funcVC struct {
	w      *world
	fn     *ssa.Function
	ct     *contract   // own contract (may be nil when only an interface contract applies)
	icts   []*contract // interface-level contracts the method must satisfy
	c      *smtctx
	obls   []*obligation
	ma     *modAnalysis
	safety bool // generate nopanic obligations
	props  []string
	nInl   int
	retConds []string
	paramVars map[string]tvar
	coveredSites map[ssa.Instruction]bool
	entry  *state
	assumed map[string]bool // assumptions used (external contracts, opaque calls)
	nPanicSites map[string]int
	safetyProps []string
	termP []string
	closures map[string]closureInfo
	closureIDs map[*ssa.Function]int
	boxed map[string]string
	nSends int
	nInvSites int
	localSorts map[string]string
	callCount map[string]int
	siteCount map[string]int
	matchedSites map[*clause]bool
	opaqueModule []string
	stack []*ssa.Function
	retResults [][]string
	layer string // verification layer ("" = base)
	guard string // path condition under which facts about the current values are assumed
}

type retInfo struct {
	block   *ssa.BasicBlock
	pos     string
	cond    string
	st      *state
	results []string
}

type frame struct {
	vc      *funcVC
	fn      *ssa.Function
	prefix  string
	vals    map[ssa.Value]string
	tuples  map[ssa.Value][]string
	regs    map[*ssa.Alloc]bool
	depth   int
	out     map[*ssa.BasicBlock]*state
	cond    map[*ssa.BasicBlock]string
	rets    []retInfo
	inline  bool
	loops   map[*ssa.BasicBlock]*loopInfo
	debug   map[string][]*ssa.DebugRef
	deferred []*ssa.Defer
	curBlock *ssa.BasicBlock
	ct      *contract
	entryCond string
	inits *initInfo
	objTerm map[ssa.Value]baseObj // local allocations -> oid term and allocated type
}

type loopInfo struct {
	header  *ssa.BasicBlock
	body    map[*ssa.BasicBlock]bool
	ordinal int
	hstate  *state // state at header (after havoc)
	invs    []*clause
	decs    []*clause
	decAt   []string // variant values at header
	counts  []*clause
	countAt []string // counter values at header (one per counts clause)
	rangeN  string
	rangePhi *ssa.Phi
	before   ssa.Instruction // call-site translators: only names defined before this instruction are in scope
}

func (vc *funcVC) addObl(o *obligation) {
	o.Func = vc.fn.String()
	o.Name = o.Func + "/" + o.Name
	o.ctx = vc.c
	o.vc = vc
	o.NAssume = len(vc.c.assumes)
	if len(o.Props) == 0 {
		o.Props = vc.props
	}
	vc.obls = append(vc.obls, o)
}

func (vc *funcVC) pos(p token.Pos) string {
	if !p.IsValid() {
		return ""
	}
	ps := vc.w.fset.Position(p)
	return fmt.Sprintf("%s:%d", strings.TrimPrefix(ps.Filename, vc.w.repo+"/"), ps.Line)
}

// ---------------------------------------------------------------------------------------------

func (vc *funcVC) run() (err error) {
	defer func() {
		if r := recover(); r != nil {
			if te, ok := r.(transError); ok {
				err = fmt.Errorf("%s: %s", vc.fn.String(), string(te))
				return
			}
			panic(r)
		}
	}()
	c := vc.c
	fn := vc.fn
	if fn.Blocks == nil {
		return fmt.Errorf("%s has no body", fn)
	}
	st := &state{heap: map[string]string{}, locals: map[string]string{}, base: map[string]heapBase{}}
	st.alloc = c.declConst("A!0", "Int")
	c.assume("(>= A!0 0)")
	vc.entry = st.clone()
	fr := vc.newFrame(fn, "", 0)
	fr.ct = vc.ct
	vc.paramVars = map[string]tvar{}
	for _, p := range fn.Params {
		name := "p_" + mangle(p.Name())
		c.declConst(name, c.sortOf(p.Type()))
		fr.vals[p] = name
		vc.typed(name, p.Type(), st)
		vc.paramVars[p.Name()] = tvar{name, vtype{c.sortOf(p.Type()), p.Type()}}
	}
	for _, fv := range fn.FreeVars {
		name := "fv_" + mangle(fv.Name())
		c.declConst(name, c.sortOf(fv.Type()))
		fr.vals[fv] = name
		vc.typed(name, fv.Type(), st)
		vc.paramVars[fv.Name()] = tvar{name, vtype{c.sortOf(fv.Type()), fv.Type()}}
		if _, isPtr := fv.Type().Underlying().(*types.Pointer); isPtr {
			// go/ssa captures variables by reference: a free variable is the address of the captured cell
			c.assume(fmt.Sprintf("(distinct %s nil)", name))
		}
	}
	// a method's receiver is non-nil only if the contract says so; for methods checked against an interface
	// contract the receiver is the dynamic value of a non-nil interface
	if (len(vc.icts) > 0 || (fn.Signature.Recv() != nil && vc.w.implementsModuleIface(fn))) && len(fn.Params) > 0 && ptrElem(fn.Params[0].Type()) != nil {
		c.assume(fmt.Sprintf("(distinct %s nil)", fr.vals[fn.Params[0]]))
		if el := ptrElem(fn.Params[0].Type()); el != nil {
			c.assume(fmt.Sprintf("(= (tyof %s) %d)", fr.vals[fn.Params[0]], vc.w.typeID(el)))
		}
	}
	// requires
	for _, ct := range vc.allContracts() {
		tr := vc.contractTrans(ct, fn, nil, st, st)
		for _, cl := range ct.clausesFor(vc.layer) {
			if cl.Kind == "requires" {
				c.assume(vc.trClause(tr, cl))
			}
		}
	}
	// state invariants of the sweep this function belongs to
	invs := vc.scopeInvariants(fn)
	for _, cl := range invs {
		tr := &trans{c: c, pkg: cl.Target, vars: map[string]tvar{}, cur: st, old: st, depth: 1}
		c.assume(vc.trClause(tr, cl))
	}
	vc.lemmaInstances(nil, st, "true")
	nReq := len(c.assumes)
	if vc.safety && vc.recursive(fn) {
		hasDec := false
		for _, ct := range vc.allContracts() {
			for _, cl := range ct.clausesFor(vc.layer) {
				if cl.Kind == "decreases" {
					hasDec = true
				}
			}
		}
		if !hasDec {
			vc.assumed["termination of the recursive function "+fn.String()+" is not proved (no decreases clause)"] = true
		}
	}
	if vc.ct != nil && vc.ct.Unreachable && vc.ct.UnreachableLayer == vc.layer {
		vc.addObl(&obligation{Name: "unreachable/requires", Kind: "pre", Goal: "true", Clause: "the precondition is unsatisfiable for this receiver", Pos: fmt.Sprintf("%s:%d", relPath(vc.ct.File), vc.ct.Line)})
		return nil
	}
	fr.exec(st)
	// ensures at each return
	for i, r := range fr.rets {
		vc.retResults = append(vc.retResults, r.results)
		for _, ct := range vc.allContracts() {
			tr := vc.contractTrans(ct, fn, r.results, r.st, vc.entry)
			for _, cl := range ct.clausesFor(vc.layer) {
				if cl.Kind != "ensures" {
					continue
				}
				f := vc.trClause(tr, cl)
				vc.addObl(&obligation{Name: fmt.Sprintf("ensures/%s@ret%d", cl.Label, i+1), Kind: "ensures", Label: cl.Label,
					Goal: and(r.cond, not(f)), Pos: fmt.Sprintf("%s:%d", relPath(cl.File), cl.Line), Clause: cl.Src + "   [at the return in " + r.pos + "]", Props: propsOfLabel(cl.Label, vc.props),
					Inputs: vc.inputTerms(), Splits: fr.joinSplits(r.block)})
			}
		}
	}
	for i, r := range fr.rets {
		for k, cl := range invs {
			tr := &trans{c: c, pkg: cl.Target, vars: map[string]tvar{}, cur: r.st, old: vc.entry, depth: 1}
			f := vc.trClause(tr, cl)
			vc.addObl(&obligation{Name: fmt.Sprintf("ensures/%s.%d@ret%d", cl.Label, k+1, i+1), Kind: "ensures", Label: cl.Label,
				Goal: and(r.cond, not(f)), Pos: fmt.Sprintf("%s:%d", relPath(cl.File), cl.Line), Clause: "invariant " + cl.Src + "   [at the return in " + r.pos + "]", Props: []string{vc.layer}, Inputs: vc.inputTerms()})
		}
	}
	// `noreturn` on a module function: no return instruction is reachable (the function ends in a panic on every path)
	if vc.ct != nil && vc.ct.NoReturn && !vc.ct.External {
		for i, r := range fr.rets {
			vc.addObl(&obligation{Name: fmt.Sprintf("noreturn@ret%d", i+1), Kind: "ensures", Label: "noreturn", Goal: r.cond,
				Pos: fmt.Sprintf("%s:%d", relPath(vc.ct.File), vc.ct.Line), Clause: "noreturn   [the return in " + r.pos + " is reachable]", Props: []string{vc.layer}, Inputs: vc.inputTerms()})
		}
	}
	// a call-site clause that matched no call would silently check nothing
	if vc.ct != nil {
		for _, cl := range vc.ct.clausesFor(vc.layer) {
			if cl.Kind == "callsite" && !vc.matchedSites[cl] {
				vc.addObl(&obligation{Name: fmt.Sprintf("callsite/%s/unmatched", cl.Label), Kind: "ensures", Label: cl.Label, Goal: "true", Status: "refuted", Output: "the contract names a call site that the function does not have",
					Pos: fmt.Sprintf("%s:%d", relPath(cl.File), cl.Line), Clause: fmt.Sprintf("no call %s#%d in this function", cl.Target, cl.Loop), Props: propsOfLabel(cl.Label, vc.props)})
			}
		}
	}
	// vacuity: precondition satisfiable, and some return reachable
	var rc []string
	for _, r := range fr.rets {
		rc = append(rc, r.cond)
	}
	o := &obligation{Name: "vacuity/requires", Kind: "vacuity", Goal: "true", ExpectSat: true}
	vc.addObl(o)
	o.NAssume = nReq
	if len(rc) > 0 {
		vc.addObl(&obligation{Name: "vacuity/return-reachable", Kind: "vacuity", Goal: or(rc...), ExpectSat: true})
	}
	return nil
}

func relPath(p string) string {
	if i := strings.Index(p, "/repo/"); i >= 0 {
		return p[i+6:]
	}
	return p
}

func propsOfLabel(label string, dflt []string) []string {
	if i := strings.Index(label, "."); i > 0 && strings.HasPrefix(label, "C") {
		return []string{label[:i]}
	}
	return dflt
}

// scopeInvariants: the state invariants of the layer if fn belongs to its sweep.
func (vc *funcVC) scopeInvariants(fn *ssa.Function) []*clause {
	if vc.layer == "" || vc.w.inScopeFn == nil || fn == nil || !vc.w.inScopeFn(fn, vc.layer) {
		return nil
	}
	return vc.w.db.Invariants[vc.layer]
}

func (vc *funcVC) allContracts() []*contract {
	var cs []*contract
	cs = append(cs, vc.icts...)
	if vc.ct != nil {
		cs = append(cs, vc.ct)
	}
	return cs
}

func (vc *funcVC) inputTerms() []string {
	var out []string
	for _, p := range vc.fn.Params {
		out = append(out, "p_"+mangle(p.Name()))
	}
	return out
}

// tryLoopClause translates a loop clause; a clause that no longer fits the code (e.g. it mentions a local that was
// renamed or removed) is dropped with a note instead of aborting: whatever depended on it then fails as an
// ordinary undischarged obligation.
func (vc *funcVC) tryLoopClause(tr *trans, cl *clause) (f string, ok bool) {
	defer func() {
		if r := recover(); r != nil {
			if te, isTE := r.(transError); isTE {
				vc.c.note(fmt.Sprintf("loop clause at %s:%d does not apply to the current code and was dropped: %s", relPath(cl.File), cl.Line, string(te)))
				f, ok = "true", false
				return
			}
			panic(r)
		}
	}()
	if cl.Kind == "invariant" && cl.Target != "" && tr.pkg != cl.Target {
		t2 := *tr
		t2.pkg = cl.Target
		return vc.trClause(&t2, cl), true
	}
	return vc.trClause(tr, cl), true
}

func (vc *funcVC) trClause(tr *trans, cl *clause) (f string) {
	defer func() {
		if r := recover(); r != nil {
			if te, ok := r.(transError); ok {
				panic(transError(fmt.Sprintf("%s:%d: %s", relPath(cl.File), cl.Line, string(te))))
			}
			panic(r)
		}
	}()
	return tr.formula(cl.Expr)
}

// contractTrans builds a translator binding the contract's parameter names of callee fn to the given terms.
// args==nil binds to fn's own parameter constants (verification of fn itself).
func (vc *funcVC) contractTrans(ct *contract, fn *ssa.Function, results []string, cur, old *state) *trans {
	tr := &trans{c: vc.c, pkg: ct.Pkg, vars: map[string]tvar{}, cur: cur, old: old, depth: 1}
	if fn != nil {
		for i, p := range fn.Params {
			name := p.Name()
			if i < len(ct.Names) {
				name = ct.Names[i]
			}
			tr.vars[name] = tvar{"p_" + mangle(p.Name()), vtype{vc.c.sortOf(p.Type()), p.Type()}}
			if ct.Interface && i == 0 {
				tr.vars["self"] = tr.vars[name]
			}
		}
		// a captured variable: go/ssa passes its address; in a contract its name denotes the variable's value when the
		// closure is entered (NAME$addr, used by addrof(NAME), is the variable itself)
		for _, fv := range fn.FreeVars {
			bindFreeVar(vc.c, tr, fv, "fv_"+mangle(fv.Name()), cur, old)
		}
		bindResults(tr, vc.c, fn.Signature, results)
	}
	return tr
}

func bindFreeVar(c *smtctx, tr *trans, fv *ssa.FreeVar, addr string, cur, old *state) {
	pt, ok := fv.Type().Underlying().(*types.Pointer)
	if !ok {
		tr.vars[fv.Name()] = tvar{addr, vtype{c.sortOf(fv.Type()), fv.Type()}}
		return
	}
	st := old
	if st == nil {
		st = cur
	}
	el := pt.Elem()
	tr.vars[fv.Name()] = tvar{c.loadAt(st, addr, el), vtype{c.sortOf(el), el}}
	tr.vars[fv.Name()+"$addr"] = tvar{addr, vtype{"Ref", fv.Type()}}
}

func bindResults(tr *trans, c *smtctx, sig *types.Signature, results []string) {
	if results == nil {
		return
	}
	rs := sig.Results()
	for i := 0; i < rs.Len() && i < len(results); i++ {
		vt := vtype{c.sortOf(rs.At(i).Type()), rs.At(i).Type()}
		tr.vars[fmt.Sprintf("result%d", i)] = tvar{results[i], vt}
		if rs.Len() == 1 {
			tr.vars["result"] = tvar{results[i], vt}
		}
		if n := rs.At(i).Name(); n != "" && n != "_" {
			if _, clash := tr.vars[n]; !clash {
				tr.vars[n] = tvar{results[i], vt}
			}
		}
	}
}

// typed adds the typing assumptions for a value of Go type t.
func (vc *funcVC) typed(term string, t types.Type, st *state) {
	c := vc.c
	switch u := t.Underlying().(type) {
	case *types.Pointer:
		vc.assumeG(fmt.Sprintf("(< (born %s) %s)", term, st.alloc))
		if _, ok := u.Elem().Underlying().(*types.Struct); ok {
			vc.assumeG(fmt.Sprintf("(=> (is_obj %s) (= (tyof %s) %d))", term, term, vc.w.typeID(u.Elem())))
		}
	case *types.Interface:
		vc.assumeG(fmt.Sprintf("(< (born %s) %s)", term, st.alloc))
		if named, ok := t.(*types.Named); ok && named.Obj().Pkg() != nil {
			key := named.Obj().Pkg().Path() + "." + named.Obj().Name()
			if impls := vc.w.impls[key]; len(impls) > 0 && vc.w.inModule(named.Obj().Pkg().Path()) {
				alts := []string{fmt.Sprintf("(= %s nil)", term)}
				for _, im := range impls {
					alts = append(alts, fmt.Sprintf("(= (tyof %s) %d)", term, vc.w.typeID(im)))
				}
				vc.assumeG(or(alts...))
				vc.assumeG(fmt.Sprintf("(or (= %s nil) (is_obj %s))", term, term))
			}
		}
	case *types.Map, *types.Chan, *types.Signature:
		vc.assumeG(fmt.Sprintf("(< (born %s) %s)", term, st.alloc))
	case *types.Slice:
		vc.assumeG(fmt.Sprintf("(and (>= (slen %s) 0) (>= (soff %s) 0) (< (born (sdata %s)) %s) (=> (> (slen %s) 0) (distinct (sdata %s) nil)))", term, term, term, st.alloc, term, term))
	case *types.Struct:
		sn := c.structSort(t)
		for i := 0; i < u.NumFields(); i++ {
			ft := u.Field(i).Type()
			switch ft.Underlying().(type) {
			case *types.Pointer, *types.Interface, *types.Map, *types.Chan, *types.Slice, *types.Struct, *types.Signature:
				vc.typed(fmt.Sprintf("(%s_%s %s)", sn, mangle(u.Field(i).Name()), term), ft, st)
			}
		}
	case *types.Basic:
		if u.Info()&types.IsUnsigned != 0 {
			vc.assumeG(fmt.Sprintf("(>= %s 0)", term))
		}
	}
}

func (vc *funcVC) assumeG(f string) {
	if vc.guard == "" || vc.guard == "true" {
		vc.c.assume(f)
		return
	}
	vc.c.assume(implies(vc.guard, f))
}

// ---------------------------------------------------------------------------------------------
// frames

func (vc *funcVC) newFrame(fn *ssa.Function, prefix string, depth int) *frame {
	fr := &frame{vc: vc, fn: fn, prefix: prefix, depth: depth, vals: map[ssa.Value]string{}, tuples: map[ssa.Value][]string{},
		regs: map[*ssa.Alloc]bool{}, out: map[*ssa.BasicBlock]*state{}, cond: map[*ssa.BasicBlock]string{}, loops: map[*ssa.BasicBlock]*loopInfo{},
		debug: map[string][]*ssa.DebugRef{}, objTerm: map[ssa.Value]baseObj{}}
	fr.findRegs()
	fr.findLoops()
	fr.inits = computeInitStores(fn, fr.regs)
	for _, b := range fn.Blocks {
		for _, ins := range b.Instrs {
			if d, ok := ins.(*ssa.DebugRef); ok && !d.IsAddr {
				if id, ok := d.Expr.(interface{ String() string }); ok {
					_ = id
				}
				if obj := d.Object(); obj != nil {
					fr.debug[obj.Name()] = append(fr.debug[obj.Name()], d)
				}
			}
		}
	}
	return fr
}

// findRegs marks local allocations whose address never escapes: they are modelled as registers.
func (fr *frame) findRegs() {
	for _, b := range fr.fn.Blocks {
		for _, ins := range b.Instrs {
			a, ok := ins.(*ssa.Alloc)
			if !ok {
				continue
			}
			if _, isArr := a.Type().Underlying().(*types.Pointer).Elem().Underlying().(*types.Array); isArr {
				continue
			}
			if addrOnlyLocal(a, 0) {
				fr.regs[a] = true
			}
		}
	}
}

func addrOnlyLocal(v ssa.Value, depth int) bool {
	if depth > 4 {
		return false
	}
	refs := v.Referrers()
	if refs == nil {
		return false
	}
	for _, r := range *refs {
		switch x := r.(type) {
		case *ssa.Store:
			if x.Val == v {
				return false
			}
		case *ssa.UnOp:
			if x.Op != token.MUL {
				return false
			}
		case *ssa.FieldAddr:
			if !addrOnlyLocal(x, depth+1) {
				return false
			}
		case *ssa.DebugRef:
		default:
			return false
		}
	}
	return true
}

func (fr *frame) findLoops() {
	fn := fr.fn
	var headers []*ssa.BasicBlock
	for _, b := range fn.Blocks {
		for _, s := range b.Succs {
			if s.Dominates(b) {
				if fr.loops[s] == nil {
					fr.loops[s] = &loopInfo{header: s, body: map[*ssa.BasicBlock]bool{s: true}}
					headers = append(headers, s)
				}
				// natural loop of back edge b->s
				li := fr.loops[s]
				stack := []*ssa.BasicBlock{b}
				for len(stack) > 0 {
					x := stack[len(stack)-1]
					stack = stack[:len(stack)-1]
					if li.body[x] {
						continue
					}
					li.body[x] = true
					stack = append(stack, x.Preds...)
				}
			}
		}
	}
	sort.Slice(headers, func(i, j int) bool { return headers[i].Index < headers[j].Index })
	for i, h := range headers {
		fr.loops[h].ordinal = i + 1
	}
}

func (fr *frame) name(v ssa.Value) string {
	return fr.prefix + v.Name()
}

func (fr *frame) val(v ssa.Value) string {
	c := fr.vc.c
	switch x := v.(type) {
	case *ssa.Const:
		return fr.constTerm(x)
	case *ssa.Global:
		id := -(10 + int64(fr.vc.w.globalID(x)))
		return fmt.Sprintf("(obj %s)", smtInt(id))
	case *ssa.Function:
		n := "fn_" + mangle(x.String())
		return c.declConst(n, "Ref")
	case *ssa.Builtin:
		return "nil"
	}
	if t, ok := fr.vals[v]; ok {
		return t
	}
	// value used before definition (can happen across cut back edges): declare
	n := fr.name(v)
	if _, isTuple := v.Type().(*types.Tuple); isTuple {
		return n
	}
	c.declConst(n, c.sortOf(v.Type()))
	fr.vals[v] = n
	return n
}

func (w *world) globalID(g *ssa.Global) int {
	if w.globals == nil {
		w.globals = map[string]int{}
	}
	k := g.String()
	if id, ok := w.globals[k]; ok {
		return id
	}
	id := len(w.globals) + 1
	w.globals[k] = id
	return id
}

func (fr *frame) constTerm(x *ssa.Const) string {
	c := fr.vc.c
	if x.Value == nil {
		return c.zero(x.Type())
	}
	switch c.sortOf(x.Type()) {
	case "Bool":
		return fmt.Sprintf("%v", constant.BoolVal(x.Value))
	case "Int":
		if i, ok := constant.Int64Val(constant.ToInt(x.Value)); ok {
			return smtInt(i)
		}
		s := x.Value.ExactString()
		if strings.HasPrefix(s, "-") {
			return "(- " + s[1:] + ")"
		}
		return s
	case "String":
		return smtString(constant.StringVal(x.Value))
	case "Real":
		return "0.0"
	}
	return "nil"
}

// define binds an SSA value to a fresh constant equal to term (keeps terms small).
func (fr *frame) define(v ssa.Value, term string) string {
	c := fr.vc.c
	n := fr.name(v)
	c.declConst(n, c.sortOf(v.Type()))
	c.assume(fmt.Sprintf("(= %s %s)", n, term))
	fr.vals[v] = n
	return n
}

func (fr *frame) havocVal(v ssa.Value, st *state) string {
	c := fr.vc.c
	n := fr.name(v)
	if _, isTuple := v.Type().(*types.Tuple); isTuple {
		tup := v.Type().(*types.Tuple)
		var comps []string
		for i := 0; i < tup.Len(); i++ {
			cn := fmt.Sprintf("%s_%d", n, i)
			c.declConst(cn, c.sortOf(tup.At(i).Type()))
			fr.vc.typed(cn, tup.At(i).Type(), st)
			comps = append(comps, cn)
		}
		fr.tuples[v] = comps
		return n
	}
	c.declConst(n, c.sortOf(v.Type()))
	fr.vals[v] = n
	fr.vc.typed(n, v.Type(), st)
	return n
}

// ---------------------------------------------------------------------------------------------
// execution

func (fr *frame) rpo() []*ssa.BasicBlock {
	seen := map[*ssa.BasicBlock]bool{}
	var order []*ssa.BasicBlock
	var dfs func(b *ssa.BasicBlock)
	dfs = func(b *ssa.BasicBlock) {
		seen[b] = true
		for i := len(b.Succs) - 1; i >= 0; i-- {
			s := b.Succs[i]
			if !seen[s] && !s.Dominates(b) {
				dfs(s)
			}
		}
		order = append(order, b)
	}
	dfs(fr.fn.Blocks[0])
	for i, j := 0, len(order)-1; i < j; i, j = i+1, j-1 {
		order[i], order[j] = order[j], order[i]
	}
	return order
}

func (fr *frame) edgeCond(from, to *ssa.BasicBlock) string {
	base := fr.cond[from]
	if iff, ok := from.Instrs[len(from.Instrs)-1].(*ssa.If); ok {
		cv := fr.val(iff.Cond)
		if from.Succs[0] == to && from.Succs[1] == to {
			return base
		}
		if from.Succs[0] == to {
			return and(base, cv)
		}
		return and(base, not(cv))
	}
	return base
}

// mergeStates joins predecessor states under their edge conditions.
func (fr *frame) mergeStates(conds []string, sts []*state) *state {
	c := fr.vc.c
	if len(sts) == 1 {
		return sts[0].clone()
	}
	res := sts[0].clone()
	keys := map[string]bool{}
	for _, s := range sts {
		for k := range s.heap {
			keys[k] = true
		}
	}
	for _, k := range sortedKeys(keys) {
		same := true
		first := c.heapGet(sts[0], k)
		for _, s := range sts[1:] {
			if c.heapGet(s, k) != first {
				same = false
			}
		}
		if same {
			res.heap[k] = first
			continue
		}
		n := c.freshConst(k+"!j", c.heapSorts[k])
		for i, s := range sts {
			c.assume(implies(conds[i], fmt.Sprintf("(= %s %s)", n, c.heapGet(s, k))))
		}
		res.heap[k] = n
	}
	for k, b := range sts[0].base {
		keep := true
		objs := append([]baseObj{}, b.objs...)
		for _, s := range sts[1:] {
			ob, ok := s.base[k]
			if !ok || ob.term != b.term {
				keep = false
				break
			}
			for _, o := range ob.objs {
				found := false
				for _, x := range objs {
					if x.term == o.term {
						found = true
					}
				}
				if !found {
					objs = append(objs, o)
				}
			}
		}
		if keep {
			res.base[k] = heapBase{b.term, objs}
		} else {
			delete(res.base, k)
		}
	}
	// a key without base in sts[0] but unchanged there and based elsewhere: keep it simple and drop
	for k := range res.base {
		if _, ok := sts[0].base[k]; !ok {
			delete(res.base, k)
		}
	}
	lkeys := map[string]bool{}
	for _, s := range sts {
		for k := range s.locals {
			lkeys[k] = true
		}
	}
	for _, k := range sortedKeys(lkeys) {
		same := true
		first, ok0 := sts[0].locals[k]
		for _, s := range sts[1:] {
			if v, ok := s.locals[k]; !ok || !ok0 || v != first {
				same = false
			}
		}
		if same {
			res.locals[k] = first
			continue
		}
		srt := fr.vc.localSorts[k]
		n := c.freshConst("L!j", srt)
		for i, s := range sts {
			if v, ok := s.locals[k]; ok {
				c.assume(implies(conds[i], fmt.Sprintf("(= %s %s)", n, v)))
			}
		}
		res.locals[k] = n
	}
	same := true
	for _, s := range sts[1:] {
		if s.alloc != sts[0].alloc {
			same = false
		}
	}
	if !same {
		n := c.freshConst("A!j", "Int")
		for i, s := range sts {
			c.assume(implies(conds[i], fmt.Sprintf("(= %s %s)", n, s.alloc)))
		}
		res.alloc = n
	}
	return res
}

func (fr *frame) exec(entry *state) {
	c := fr.vc.c
	order := fr.rpo()
	for _, b := range order {
		fr.curBlock = b
		var st *state
		if b == fr.fn.Blocks[0] {
			fr.cond[b] = "true"
			if fr.inline {
				fr.cond[b] = fr.entryCond
			}
			st = entry.clone()
		} else {
			var conds []string
			var sts []*state
			var preds []*ssa.BasicBlock
			for _, p := range b.Preds {
				if b.Dominates(p) && fr.loops[b] != nil && fr.loops[b].body[p] {
					continue // back edge
				}
				if _, done := fr.out[p]; !done {
					continue // unreachable predecessor (e.g. recover block)
				}
				conds = append(conds, fr.edgeCond(p, b))
				sts = append(sts, fr.out[p])
				preds = append(preds, p)
			}
			if len(sts) == 0 {
				continue
			}
			st = fr.mergeStates(conds, sts)
			enter := or(conds...)
			if li := fr.loops[b]; li != nil {
				st = fr.enterLoop(li, b, st, enter, preds, conds)
			} else {
				bc := c.declConst(fmt.Sprintf("%sat_b%d", fr.prefix, b.Index), "Bool")
				c.assume(fmt.Sprintf("(= %s %s)", bc, enter))
				fr.cond[b] = bc
				// phis
				for _, ins := range b.Instrs {
					phi, ok := ins.(*ssa.Phi)
					if !ok {
						break
					}
					n := fr.name(phi)
					c.declConst(n, c.sortOf(phi.Type()))
					fr.vals[phi] = n
					for i, p := range b.Preds {
						for j, pp := range preds {
							if pp == p {
								c.assume(implies(conds[j], fmt.Sprintf("(= %s %s)", n, fr.val(phi.Edges[i]))))
							}
						}
					}
				}
			}
		}
		fr.vc.guard = fr.cond[b]
		fr.block(b, st)
		for _, s := range b.Succs {
			if li := fr.loops[s]; li != nil && s.Dominates(b) && li.body[b] {
				fr.backEdge(li, b, s)
			}
		}
		// counted loops are left by their own test only, and then the counter has reached the bound
		for _, li := range fr.loops {
			if li == nil || len(li.counts) == 0 || !li.body[b] {
				continue
			}
			for _, s := range b.Succs {
				if li.body[s] {
					continue
				}
				for k, cl := range li.counts {
					name := fmt.Sprintf("count/loop%d.%d/exit@b%d", li.ordinal, k+1, b.Index)
					pos := fmt.Sprintf("%s:%d", relPath(cl.File), cl.Line)
					if b != li.header {
						fr.vc.addObl(&obligation{Name: name, Kind: "inv-preserve", Goal: "true", Status: "refuted", Output: "the loop is left from inside its body", Pos: pos, Clause: "counts " + cl.Src + "   [left by its own test only]"})
						continue
					}
					tr := fr.loopTrans(li, fr.out[b], nil)
					v, _ := tr.expr(cl.Exprs[0])
					hi, _ := tr.expr(cl.Exprs[2])
					fr.vc.addObl(&obligation{Name: name, Kind: "inv-preserve", Goal: and(fr.edgeCond(b, s), fmt.Sprintf("(< %s %s)", v, hi)), Pos: pos, Clause: "counts " + cl.Src + "   [last value]"})
				}
			}
		}
	}
}

// backEdge: the invariant is preserved and the variant decreases along the edge b -> h.
func (fr *frame) backEdge(li *loopInfo, b, h *ssa.BasicBlock) {
	vc := fr.vc
	st := fr.out[b]
	ec := fr.edgeCond(b, h)
	phiVals := map[*ssa.Phi]string{}
	for _, ins := range h.Instrs {
		phi, ok := ins.(*ssa.Phi)
		if !ok {
			break
		}
		for i, p := range h.Preds {
			if p == b {
				phiVals[phi] = fr.val(phi.Edges[i])
			}
		}
	}
	sfx := ""
	if fr.inline {
		sfx = "@inl:" + fr.fn.Name()
	}
	if li.rangePhi != nil {
		vc.addObl(&obligation{Name: fmt.Sprintf("inv/loop%d.rangeindex/preserve@b%d%s", li.ordinal, fr.backOrdinal(li, b), sfx), Kind: "inv-preserve",
			Goal: and(ec, fmt.Sprintf("(not (<= (+ %s 1) %s))", phiVals[li.rangePhi], li.rangeN)), Clause: "idx+1 <= len"})
	}
	for k, cl := range li.invs {
		tr := fr.loopTrans(li, st, phiVals)
		f, okc := vc.tryLoopClause(tr, cl)
		if !okc {
			continue
		}
		vc.addObl(&obligation{Name: fmt.Sprintf("inv/loop%d.%d/preserve@b%d%s", li.ordinal, k+1, fr.backOrdinal(li, b), sfx), Kind: "inv-preserve", Goal: and(ec, not(f)),
			Pos: fmt.Sprintf("%s:%d", relPath(cl.File), cl.Line), Clause: cl.Src, Inputs: vc.inputTerms()})
	}
	for k, cl := range li.counts {
		tr := fr.loopTrans(li, st, phiVals)
		v, _ := tr.expr(cl.Exprs[0])
		vc.addObl(&obligation{Name: fmt.Sprintf("count/loop%d.%d/step@b%d%s", li.ordinal, k+1, fr.backOrdinal(li, b), sfx), Kind: "inv-preserve",
			Goal: and(ec, fmt.Sprintf("(distinct %s (+ %s 1))", v, li.countAt[k])), Pos: fmt.Sprintf("%s:%d", relPath(cl.File), cl.Line), Clause: "counts " + cl.Src + "   [grows by one]"})
	}
	for _, cl := range li.decs {
		tr := fr.loopTrans(li, st, phiVals)
		var now []string
		for _, e := range cl.Exprs {
			s, _ := tr.expr(e)
			now = append(now, s)
		}
		vc.addObl(&obligation{Name: fmt.Sprintf("variant/loop%d@b%d%s", li.ordinal, fr.backOrdinal(li, b), sfx), Kind: "variant", Goal: and(ec, not(lexLess(now, li.decAt))),
			Pos: fmt.Sprintf("%s:%d", relPath(cl.File), cl.Line), Clause: "decreases " + cl.Src, Props: vc.termProps(), Inputs: vc.inputTerms()})
	}
	if len(li.decs) == 0 && vc.safety && !li.selfTerminating() {
		vc.addObl(&obligation{Name: fmt.Sprintf("variant/loop%d@b%d%s", li.ordinal, fr.backOrdinal(li, b), sfx), Kind: "variant", Goal: ec, Clause: "loop without a decreases clause", Props: vc.termProps()})
	}
}

// backOrdinal numbers the back edges of a loop in block order (stable under unrelated edits).
func (fr *frame) backOrdinal(li *loopInfo, b *ssa.BasicBlock) int {
	n := 0
	for _, p := range li.header.Preds {
		if li.body[p] && li.header.Dominates(p) {
			n++
			if p == b {
				return n
			}
		}
	}
	return n
}

// selfTerminating: range loops over slices (hidden index) and maps terminate by construction.
func (li *loopInfo) selfTerminating() bool {
	for _, ins := range li.header.Instrs {
		if phi, ok := ins.(*ssa.Phi); ok && phi.Comment == "rangeindex" {
			return true
		}
		if _, ok := ins.(*ssa.Next); ok {
			return true
		}
	}
	return false
}

func (fr *frame) enterLoop(li *loopInfo, h *ssa.BasicBlock, pre *state, enter string, preds []*ssa.BasicBlock, conds []string) *state {
	vc := fr.vc
	c := vc.c
	// contract clauses for this loop
	if fr.ct != nil {
		for _, cl := range fr.ct.clausesFor(vc.layer) {
			if cl.Loop == li.ordinal && cl.Kind == "loopinv" {
				li.invs = append(li.invs, cl)
			}
			if cl.Loop == li.ordinal && cl.Kind == "loopdec" {
				li.decs = append(li.decs, cl)
			}
			if cl.Loop == li.ordinal && cl.Kind == "loopcount" && len(cl.Exprs) == 3 {
				li.counts = append(li.counts, cl)
			}
		}
	}
	// the state invariants of the sweep hold at every loop head of its functions
	li.invs = append(li.invs, vc.scopeInvariants(vc.fn)...)
	// entry values of phis
	entryVals := map[*ssa.Phi]string{}
	var phis []*ssa.Phi
	for _, ins := range h.Instrs {
		phi, ok := ins.(*ssa.Phi)
		if !ok {
			break
		}
		phis = append(phis, phi)
		// merge entry edges
		var alts []string
		var altc []string
		for i, p := range h.Preds {
			for j, pp := range preds {
				if pp == p {
					alts = append(alts, fr.val(phi.Edges[i]))
					altc = append(altc, conds[j])
				}
			}
		}
		if len(alts) == 1 {
			entryVals[phi] = alts[0]
		} else {
			n := c.freshConst(fr.name(phi)+"!e", c.sortOf(phi.Type()))
			for k := range alts {
				c.assume(implies(altc[k], fmt.Sprintf("(= %s %s)", n, alts[k])))
			}
			entryVals[phi] = n
		}
	}
	// invariant on entry
	for k, cl := range li.invs {
		tr := fr.loopTrans(li, pre, entryVals)
		f, okc := vc.tryLoopClause(tr, cl)
		if !okc {
			continue
		}
		vc.addObl(&obligation{Name: fmt.Sprintf("inv/loop%d.%d/entry", li.ordinal, k+1), Kind: "inv-entry", Goal: and(enter, not(f)),
			Pos: fmt.Sprintf("%s:%d", relPath(cl.File), cl.Line), Clause: cl.Src})
	}
	for k, cl := range li.counts {
		tr := fr.loopTrans(li, pre, entryVals)
		v, _ := tr.expr(cl.Exprs[0])
		lo, _ := tr.expr(cl.Exprs[1])
		vc.addObl(&obligation{Name: fmt.Sprintf("count/loop%d.%d/start", li.ordinal, k+1), Kind: "inv-entry", Goal: and(enter, fmt.Sprintf("(distinct %s %s)", v, lo)),
			Pos: fmt.Sprintf("%s:%d", relPath(cl.File), cl.Line), Clause: "counts " + cl.Src + "   [first value]"})
	}
	// header state: havoc what the loop body may modify
	hst := pre.clone()
	ms := vc.ma.region(fr.fn, li.body)
	vc.havoc(hst, pre, ms, fmt.Sprintf("loop%d", li.ordinal), func(v ssa.Value) (string, bool) { return fr.val(v), true }, fr.objTerm)
	// register locals assigned in the loop
	for _, b := range fr.fn.Blocks {
		if !li.body[b] {
			continue
		}
		for _, ins := range b.Instrs {
			if s, ok := ins.(*ssa.Store); ok {
				if a := rootAlloc(s.Addr); a != nil && fr.regs[a] && !li.body[a.Block()] {
					k := fr.regKey(a)
					hst.locals[k] = c.freshConst("L!h", vc.localSorts[k])
				}
			}
			if r, ok := ins.(*ssa.Next); ok {
				if rg, ok := r.Iter.(*ssa.Range); ok && !li.body[rg.Block()] {
					k := fr.iterKey(rg)
					hst.heap[k] = c.freshConst(k+"!h", c.heapSorts[k])
				}
			}
		}
	}
	hc := c.declConst(fmt.Sprintf("%sat_b%d", fr.prefix, h.Index), "Bool")
	fr.cond[h] = hc
	// the header is only reached (in any iteration) after the loop was entered: values computed before the
	// loop are immutable, so everything known on the entry edges still holds
	c.assume(implies(hc, enter))
	vc.guard = hc
	for _, phi := range phis {
		n := fr.name(phi)
		c.declConst(n, c.sortOf(phi.Type()))
		fr.vals[phi] = n
		vc.typed(n, phi.Type(), hst)
		if phi.Comment == "rangeindex" {
			c.assume(fmt.Sprintf("(>= %s (- 1))", n))
			// built-in invariant of `for i := range xs`: idx+1 <= len(xs). It holds on entry (idx = -1, len >= 0)
			// and along the back edge (which is taken only under idx+1 < len); both are checked.
			if N := rangeIndexBound(phi); N != nil {
				nv := fr.val(N)
				vc.addObl(&obligation{Name: fmt.Sprintf("inv/loop%d.rangeindex/entry", li.ordinal), Kind: "inv-entry", Goal: and(enter, fmt.Sprintf("(< %s 0)", nv)), Clause: "0 <= len"})
				c.assume(implies(hc, fmt.Sprintf("(<= (+ %s 1) %s)", n, nv)))
				li.rangeN = nv
				li.rangePhi = phi
			}
		}
	}
	li.hstate = hst.clone()
	for _, cl := range li.invs {
		tr := fr.loopTrans(li, hst, nil)
		if f, okc := vc.tryLoopClause(tr, cl); okc {
			c.assume(implies(hc, f))
		}
	}
	vc.lemmaInstances(pre, hst, hc)
	li.countAt = nil
	for _, cl := range li.counts {
		tr := fr.loopTrans(li, hst, nil)
		v, _ := tr.expr(cl.Exprs[0])
		li.countAt = append(li.countAt, v)
	}
	for _, cl := range li.decs {
		tr := fr.loopTrans(li, hst, nil)
		li.decAt = nil
		for _, e := range cl.Exprs {
			s, _ := tr.expr(e)
			li.decAt = append(li.decAt, s)
		}
	}
	return hst
}

func rootAlloc(v ssa.Value) *ssa.Alloc {
	for i := 0; i < 8; i++ {
		switch x := v.(type) {
		case *ssa.Alloc:
			return x
		case *ssa.FieldAddr:
			v = x.X
		default:
			return nil
		}
	}
	return nil
}

// loopTrans builds the translator for loop invariants: parameters, phis by source name, locals, named values.
func (fr *frame) loopTrans(li *loopInfo, st *state, phiVals map[*ssa.Phi]string) *trans {
	vc := fr.vc
	c := vc.c
	var tr *trans
	if fr.ct != nil {
		tr = vc.contractTrans(fr.ct, fr.fn, nil, st, vc.entry)
	} else {
		tr = &trans{c: c, pkg: fr.fn.Pkg.Pkg.Path(), vars: map[string]tvar{}, cur: st, old: vc.entry, depth: 1}
	}
	if fr.inline {
		for _, p := range fr.fn.Params {
			tr.vars[p.Name()] = tvar{fr.val(p), vtype{c.sortOf(p.Type()), p.Type()}}
		}
	}
	// NAME0: the entry value of parameter NAME (the plain name denotes the current value where the parameter is assigned to)
	for _, p := range fr.fn.Params {
		if _, clash := tr.vars[p.Name()+"0"]; !clash {
			tr.vars[p.Name()+"0"] = tvar{fr.val(p), vtype{c.sortOf(p.Type()), p.Type()}}
		}
	}
	// named values dominating the header
	for name, refs := range fr.debug {
		var best *ssa.DebugRef
		for _, d := range refs {
			if li.before != nil && d.Block() == li.header && !instrBefore(d, li.before) {
				continue // (call sites: a reference later in the block of the call is not in scope yet)
			}
			if d.Block().Dominates(li.header) && !li.body[d.Block()] {
				if best == nil || best.Block().Dominates(d.Block()) {
					best = d
				}
			}
		}
		if best != nil {
			if _, isParam := tr.vars[name]; !isParam {
				tr.vars[name] = tvar{fr.val(best.X), vtype{c.sortOf(best.X.Type()), best.X.Type()}}
			}
		}
	}
	// locals
	for _, b := range fr.fn.Blocks {
		for _, ins := range b.Instrs {
			if a, ok := ins.(*ssa.Alloc); ok && a.Comment != "" && a.Block().Dominates(li.header) {
				el := a.Type().Underlying().(*types.Pointer).Elem()
				if fr.regs[a] {
					if v, ok := st.locals[fr.regKey(a)]; ok {
						tr.vars[a.Comment] = tvar{v, vtype{c.sortOf(el), el}}
					}
				} else if _, isArr := el.Underlying().(*types.Array); !isArr {
					tr.vars[a.Comment] = tvar{c.loadAt(st, fr.val(a), el), vtype{c.sortOf(el), el}}
					// the address of an address-taken local: NAME$addr (used by addrof(NAME))
					tr.vars[a.Comment+"$addr"] = tvar{fr.val(a), vtype{"Ref", a.Type()}}
				}
			}
		}
	}
	// phis of this header
	for _, ins := range li.header.Instrs {
		phi, ok := ins.(*ssa.Phi)
		if !ok {
			break
		}
		v := fr.vals[phi]
		if phiVals != nil {
			v = phiVals[phi]
		}
		name := phi.Comment
		if name == "rangeindex" {
			name = "idx"
		}
		if name != "" {
			tr.vars[name] = tvar{v, vtype{c.sortOf(phi.Type()), phi.Type()}}
		}
	}
	// the hidden index of an enclosing `for ... range` loop: idx<ordinal of that loop>
	for h, lo := range fr.loops {
		if lo == nil || lo == li || (!lo.body[li.header] && !h.Dominates(li.header)) {
			// (a block that leaves the loop - `...; break` - is not part of the natural loop but still sees its index)
			continue
		}
		for _, ins := range h.Instrs {
			phi, ok := ins.(*ssa.Phi)
			if !ok {
				break
			}
			if phi.Comment == "rangeindex" {
				if v, ok := fr.vals[phi]; ok {
					tr.vars[fmt.Sprintf("idx%d", lo.ordinal)] = tvar{v, vtype{c.sortOf(phi.Type()), phi.Type()}}
				}
			}
		}
	}
	// range iterator ghost
	for _, ins := range li.header.Instrs {
		if nx, ok := ins.(*ssa.Next); ok {
			if rg, ok := nx.Iter.(*ssa.Range); ok {
				k := fr.iterKey(rg)
				tr.vars["visited"] = tvar{c.heapGet(st, k), vtype{arrayElemSort(c.heapSorts[k]), nil}}
				tr.vars["visited"] = tvar{c.heapGet(st, k), vtype{c.heapSorts[k], nil}}
			}
		}
	}
	return tr
}

func instrBefore(a, b ssa.Instruction) bool {
	for _, ins := range a.Block().Instrs {
		if ins == a {
			return true
		}
		if ins == b {
			return false
		}
	}
	return false
}

func (fr *frame) regKey(a *ssa.Alloc) string { return "L_" + fr.prefix + a.Name() }

func (fr *frame) iterKey(r *ssa.Range) string {
	c := fr.vc.c
	k := "IT_" + fr.prefix + r.Name()
	if _, ok := c.heapSorts[k]; !ok {
		ks := "String"
		if mt, ok := r.X.Type().Underlying().(*types.Map); ok {
			ks = c.sortOf(mt.Key())
		}
		c.heapSorts[k] = fmt.Sprintf("(Array %s Bool)", ks)
	}
	return k
}

// lemmaInstances: after a havoc (a call or a loop head) the two-state lemmas of the layer's property are available
// between the state before the havoc and the state after it, and between the function's entry state and the state
// after it. (A lemma is proved once, for arbitrary pairs of heaps: obligation lemma/<label>.)
func (vc *funcVC) lemmaInstances(pre, post *state, guard string) {
	if vc.layer == "" {
		return
	}
	c := vc.c
	for _, lm := range vc.w.db.Lemmas {
		if !strings.HasPrefix(lm.Label, vc.layer+".") || (!lm.TwoState && lm.Measure == nil) {
			continue // plain one-state lemmas are statements about the spec functions only (checked, not used)
		}
		reads := vc.w.lemmaReads(lm)
		olds := []*state{pre, vc.entry}
		if !lm.TwoState {
			olds = []*state{post} // a one-state lemma holds in every state: instantiated where its footprint is new
		}
		for i, old := range olds {
			if old == nil || (i == 1 && old == pre) {
				continue
			}
			differs := false
			for k := range reads {
				if _, inOld := old.heap[k]; !inOld {
					if _, inPost := post.heap[k]; !inPost {
						continue // both states hold the entry version
					}
				}
				if !vc.ensureKey(k) {
					continue
				}
				if c.heapGet(old, k) != c.heapGet(post, k) {
					differs = true
					break
				}
			}
			if lm.TwoState && !differs {
				continue
			}
			key := "lemma|" + lm.Label + "|" + fmt.Sprint(i) + "|"
			if lm.TwoState {
				key += guard
			}
			for _, k := range sortedKeys(reads) {
				key += "|" + old.heap[k] + ">" + post.heap[k]
			}
			if c.unfolded[key] {
				continue
			}
			c.unfolded[key] = true
			tr := &trans{c: c, pkg: lm.Pkg, vars: map[string]tvar{}, cur: post, old: old, depth: 0}
			f, ok := func() (f string, ok bool) {
				defer func() {
					if r := recover(); r != nil {
						if _, isTE := r.(transError); isTE {
							ok = false
							return
						}
						panic(r)
					}
				}()
				return tr.formula(lm.Expr), true
			}()
			if ok {
				if lm.TwoState {
					c.assume(implies(guard, f))
				} else {
					c.assume(f)
				}
				c.usedAxioms["lemma "+lm.Label+" (proved as obligation lemma/"+lm.Label+")"] = true
			}
		}
	}
}

// havoc replaces what ms may write by fresh versions in st (pre is the state before), adding frame axioms.
func (vc *funcVC) havoc(st, pre *state, ms *modset, why string, rootTerm func(ssa.Value) (string, bool), objTerm map[ssa.Value]baseObj) {
	c := vc.c
	keys := map[string]bool{}
	for k := range ms.real {
		keys[k] = true
	}
	if ms.spawns {
		vc.assumed["goroutines started inside "+why+": their effects are not part of the call's effect on the caller's objects (ownership discipline of C13: a spawned process works on the objects handed to it)"] = true
	}
	if len(keys) == 0 && len(ms.fresh) == 0 && len(ms.unknown) == 0 {
		return
	}
	// allocation does not change the heap arrays: cells of fresh objects are simply not known before;
	// only keys with writes to (possibly) pre-existing objects get a new version, framed by address shape
	newA := c.freshConst("A", "Int")
	c.assume(fmt.Sprintf("(>= %s %s)", newA, pre.alloc))
	for _, k := range sortedKeys(keys) {
		if !vc.ensureKey(k) {
			continue
		}
		old := c.heapGet(pre, k)
		n := c.freshConst(k, c.heapSorts[k])
		st.heap[k] = n
		c.heapWF(n, c.heapSorts[k], newA)
		sh := ms.real[k]
		delete(st.base, k)
		if os.Getenv("GRITSVC_DEBUG_HAVOC") != "" {
			fmt.Fprintf(os.Stderr, "havoc %s %s: nonObj=%v any=%v objs=%d elem=%v obj=%v objTerm=%v\n", why, k, sh.nonObj, sh.any, len(sh.objs), sh.elem, sh.obj, objTerm != nil)
		}
		if !sh.nonObj && (!sh.any || (strings.HasPrefix(k, "F_") && !sh.nonCell)) && len(sh.objs) > 0 && objTerm != nil {
			var objs []baseObj
			ok := true
			for o := range sh.objs {
				t, found := objTerm[o]
				if !found {
					ok = false
				}
				objs = append(objs, t)
			}
			if ok {
				sort.Slice(objs, func(i, j int) bool { return objs[i].term < objs[j].term })
				if pb, had := pre.base[k]; had {
					st.base[k] = heapBase{pb.term, append(append([]baseObj{}, pb.objs...), objs...)}
				} else {
					st.base[k] = heapBase{old, objs}
				}

			}
		}
		if !sh.nonCell && len(sh.cellObjs) > 0 && objTerm != nil {
			// every write is a direct store into one of these local objects: all other cells are unchanged
			var g []string
			var objs []baseObj
			ok := true
			for o := range sh.cellObjs {
				t, found := objTerm[o]
				if !found {
					ok = false
					break
				}
				g = append(g, fmt.Sprintf("(distinct (oid fa!x) %s)", t.term))
				t.escaped = true // not known to be unescaped here: the lineage lemma is used only under type unreachability
				objs = append(objs, t)
			}
			if ok {
				sort.Strings(g)
				c.assume(fmt.Sprintf("(forall ((fa!x Ref)) (! (=> %s (= (select %s fa!x) (select %s fa!x))) :pattern ((select %s fa!x))))", and(g...), n, old, n))
				if _, has := st.base[k]; !has {
					sort.Slice(objs, func(i, j int) bool { return objs[i].term < objs[j].term })
					if pb, had := pre.base[k]; had {
						st.base[k] = heapBase{pb.term, append(append([]baseObj{}, pb.objs...), objs...)}
					} else {
						st.base[k] = heapBase{old, objs}
					}
				}
			}
		}
		if strings.HasPrefix(k, "F_") {
			// a field array that is written gets a fresh version (other fields are other arrays), framed by where the
			// written structs live: a struct embedded in another field, or elsewhere, keeps its value
			if !sh.eany && len(sh.eparams) == 0 && (len(sh.efids) > 0 || sh.eelem || sh.eobj) {
				var hit []string
				var fh []string
				for _, f := range sortedInts(sh.efids) {
					fh = append(fh, fmt.Sprintf("(= (pfid (pbase (path fa!x))) %d)", f))
				}
				if len(fh) > 0 {
					hit = append(hit, and("((_ is pfld) (pbase (path fa!x)))", or(fh...)))
				}
				if sh.eelem {
					hit = append(hit, "((_ is pelem) (pbase (path fa!x)))")
				}
				if sh.eobj {
					hit = append(hit, "((_ is pnil) (pbase (path fa!x)))")
				}
				c.assume(fmt.Sprintf("(forall ((fa!x Ref)) (! (=> (and (is_fld fa!x) %s) (= (select %s fa!x) (select %s fa!x))) :pattern ((select %s fa!x))))", not(or(hit...)), n, old, n))
			}
			continue
		}
		if sh.any {
			continue
		}
		if !strings.HasPrefix(k, "H_") {
			// map arrays: only the maps named by the roots may have changed
			var guard []string
			ok := true
			for r := range sh.roots {
				t, found := "", false
				if rootTerm != nil {
					t, found = rootTerm(r)
				}
				if !found {
					ok = false
					break
				}
				guard = append(guard, fmt.Sprintf("(distinct fa!x %s)", t))
			}
			if ok {
				sort.Strings(guard)
				c.assume(fmt.Sprintf("(forall ((fa!x Ref)) (! (=> %s (= (select %s fa!x) (select %s fa!x))) :pattern ((select %s fa!x))))", and(guard...), n, old, n))
			}
			continue
		}
		var guard []string
		var hit []string
		for _, f := range sortedInts(sh.fids) {
			hit = append(hit, fmt.Sprintf("(= (fid fa!x) %d)", f))
		}
		if len(hit) > 0 {
			guard = append(guard, not(and("(is_fld fa!x)", or(hit...))))
		}
		if sh.elem {
			guard = append(guard, "(not (is_elem fa!x))")
		}
		if sh.obj {
			guard = append(guard, "(not (is_obj fa!x))")
		}
		c.assume(fmt.Sprintf("(forall ((fa!x Ref)) (! (=> %s (= (select %s fa!x) (select %s fa!x))) :pattern ((select %s fa!x))))", and(guard...), n, old, n))
	}
	st.alloc = newA
	for _, u := range ms.unknown {
		c.unsup(why + ": " + u)
	}
}

func sortedInts(m map[int]bool) []int {
	var out []int
	for k := range m {
		out = append(out, k)
	}
	sort.Ints(out)
	return out
}

// ensureKey makes the sort of a heap key known in this context (keys found by the mod-set analysis).
func (vc *funcVC) ensureKey(k string) bool {
	c := vc.c
	if _, ok := c.heapSorts[k]; ok {
		return true
	}
	if strings.HasPrefix(k, "G_") {
		if gt, ok := vc.w.db.Ghosts[k[2:]]; ok {
			c.heapSorts[k] = (&trans{c: c}).resolveType(gt).sort
			return true
		}
	}
	if fid, ok := vc.ma.keyFids[k]; ok {
		c.fieldKeyByID(fid)
		return true
	}
	if t, ok := vc.ma.keyTypes[k]; ok {
		if _, isMap := t.Underlying().(*types.Map); isMap && !strings.HasPrefix(k, "H_") {
			c.mapKeys(t)
		} else {
			c.cellKey(t)
		}
		_, ok2 := c.heapSorts[k]
		return ok2
	}
	return false
}

// rangeIndexBound finds N in the header pattern  t = phi + 1; c = t < N  of a range-over-slice loop.
func rangeIndexBound(phi *ssa.Phi) ssa.Value {
	for _, r := range *phi.Referrers() {
		add, ok := r.(*ssa.BinOp)
		if !ok || add.Op != token.ADD || add.Block() != phi.Block() {
			continue
		}
		for _, r2 := range *add.Referrers() {
			cmp, ok := r2.(*ssa.BinOp)
			if ok && cmp.Op == token.LSS && cmp.X == add && cmp.Block() == phi.Block() {
				return cmp.Y
			}
		}
	}
	return nil
}

// joinSplits returns the edge conditions into the nearest join block dominating b (a partition of the paths
// reaching b), or nil.
func (fr *frame) joinSplits(b *ssa.BasicBlock) []string {
	for x := b; x != nil; x = x.Idom() {
		var conds []string
		for _, p := range x.Preds {
			if x.Dominates(p) {
				continue // back edge
			}
			if _, ok := fr.out[p]; !ok {
				continue
			}
			conds = append(conds, fr.edgeCond(p, x))
		}
		if len(conds) >= 2 {
			if fr.loops[x] != nil {
				continue
			}
			return conds
		}
	}
	return nil
}
