package main

// Replay of solver counterexamples against the real code: the model's inputs are turned into Go
// values (where the parameter types are simple enough), a test is injected with `go test -overlay`
// (nothing is written into /repo) and the observed results are compared with the model's.

import (
	"encoding/json"
	"fmt"
	"go/types"
	"os"
	"os/exec"
	"path/filepath"
	"regexp"
	"strconv"
	"strings"
	"time"

	"golang.org/x/tools/go/ssa"
)

// writeReplay writes the replay file of a failing obligation and returns the suffix of the VIOLATION line.
func (e *engine) writeReplay(path, prop string, o *obligation) string {
	rep := map[string]any{
		"property":      prop,
		"obligation":    o.Name,
		"kind":          o.Kind,
		"clause":        o.Clause,
		"at":            o.Pos,
		"status":        o.Status,
		"solver_output": o.Output,
	}
	suffix := " no-failing-input-found"
	if o.Status == "refuted" {
		if r := e.replayOnCode(o); r != nil {
			rep["replay"] = r
			if r["confirmed"] == true {
				suffix = ""
			}
		}
	}
	rep["failing_input_found"] = suffix == ""
	data, _ := json.MarshalIndent(rep, "", " ")
	os.WriteFile(path, append(data, '\n'), 0o644)
	return suffix
}

type concArg struct {
	goExpr string
	desc   string
}

// queryTerms lists the SMT terms whose values describe a Go value of type t held in term.
func (e *engine) queryTerms(term string, t types.Type) []string {
	switch t.Underlying().(type) {
	case *types.Basic:
		return []string{term}
	case *types.Pointer, *types.Interface:
		return []string{fmt.Sprintf("(= %s nil)", term), fmt.Sprintf("(tyof %s)", term)}
	}
	return nil
}

func (e *engine) typeNameByID(id int) string {
	for n, i := range e.w.typeIDs {
		if i == id {
			return n
		}
	}
	return ""
}

// concretise builds a Go expression for a parameter from the model values.
func (e *engine) concretise(pkgPath string, t types.Type, vals []string) (string, bool) {
	qual := func(full string) string {
		i := strings.LastIndex(full, ".")
		p, n := full[:i], full[i+1:]
		if p == pkgPath {
			return n
		}
		return p[strings.LastIndex(p, "/")+1:] + "." + n
	}
	switch u := t.Underlying().(type) {
	case *types.Basic:
		v := vals[0]
		switch {
		case u.Info()&types.IsString != 0:
			return smtStringToGo(v), true
		case u.Info()&types.IsInteger != 0:
			v = strings.ReplaceAll(strings.ReplaceAll(strings.ReplaceAll(v, "(", ""), ")", ""), " ", "")
			if _, err := strconv.ParseInt(v, 10, 64); err != nil {
				return "", false
			}
			return v, true
		case u.Info()&types.IsBoolean != 0:
			return v, true
		}
	case *types.Pointer, *types.Interface:
		if vals[0] == "true" {
			return "nil", true
		}
		id, err := strconv.Atoi(vals[1])
		if err != nil {
			return "", false
		}
		full := e.typeNameByID(id)
		if full == "" {
			return "", false
		}
		// only structs whose zero value is a faithful witness (no fields, or fields irrelevant to dispatch)
		return "&" + qual(full) + "{}", true
	}
	return "", false
}

func smtStringToGo(v string) string {
	v = strings.TrimSpace(v)
	if len(v) >= 2 && v[0] == '"' {
		v = v[1 : len(v)-1]
	}
	v = strings.ReplaceAll(v, `""`, `"`)
	re := regexp.MustCompile(`\\u\{([0-9a-fA-F]+)\}`)
	v = re.ReplaceAllStringFunc(v, func(m string) string {
		h := re.FindStringSubmatch(m)[1]
		n, _ := strconv.ParseInt(h, 16, 32)
		return string(rune(n))
	})
	return strconv.Quote(v)
}

// parseGetValue parses "((t1 v1) (t2 v2) ...)" into the list of value strings (in order).
func parseGetValue(out string) []string {
	out = strings.TrimSpace(out)
	// tokenise into top-level pairs
	var vals []string
	depth := 0
	start := -1
	for i := 0; i < len(out); i++ {
		switch out[i] {
		case '"':
			j := i + 1
			for j < len(out) {
				if out[j] == '"' {
					if j+1 < len(out) && out[j+1] == '"' {
						j += 2
						continue
					}
					break
				}
				j++
			}
			i = j
		case '(':
			depth++
			if depth == 2 {
				start = i
			}
		case ')':
			if depth == 2 && start >= 0 {
				pair := out[start+1 : i]
				vals = append(vals, splitPairValue(pair))
				start = -1
			}
			depth--
		}
	}
	return vals
}

// splitPairValue returns the value part of "term value" where term may be parenthesised.
func splitPairValue(pair string) string {
	pair = strings.TrimSpace(pair)
	if strings.HasPrefix(pair, "(") {
		d := 0
		for i := 0; i < len(pair); i++ {
			if pair[i] == '(' {
				d++
			}
			if pair[i] == ')' {
				d--
				if d == 0 {
					return strings.TrimSpace(pair[i+1:])
				}
			}
		}
	}
	if i := strings.IndexAny(pair, " \n"); i >= 0 {
		return strings.TrimSpace(pair[i+1:])
	}
	return ""
}

// replayOnCode concretises the model into a call of the real function (where the inputs are simple enough).
func (e *engine) replayOnCode(o *obligation) map[string]any {
	fn := e.w.funcs[o.Func]
	if fn == nil || fn.Pkg == nil || fn.Parent() != nil || o.ctx == nil {
		return nil // (obligations decided by a static scan have no solver context and no model)
	}
	pkgPath := fn.Pkg.Pkg.Path()
	var terms []string
	var counts []int
	for _, p := range fn.Params {
		q := e.queryTerms("p_"+mangle(p.Name()), p.Type())
		if q == nil {
			return map[string]any{"confirmed": false, "reason": "parameter " + p.Name() + " of type " + p.Type().String() + " cannot be concretised from the model"}
		}
		terms = append(terms, q...)
		counts = append(counts, len(q))
	}
	script := o.ctx.script(o.NAssume, o.Goal, terms)
	var vals []string
	for _, s := range []string{"z3-new", "z3"} {
		r := runSolver(s, script, e.opts.timeout)
		if r.status == "sat" {
			parts := strings.SplitN(r.out, "\n", 2)
			if len(parts) == 2 {
				vals = parseGetValue(parts[1])
			}
			break
		}
	}
	if len(vals) != len(terms) {
		return map[string]any{"confirmed": false, "reason": "no model values obtained"}
	}
	var args []string
	k := 0
	for i, p := range fn.Params {
		g, ok := e.concretise(pkgPath, p.Type(), vals[k:k+counts[i]])
		if !ok {
			return map[string]any{"confirmed": false, "reason": "model value of " + p.Name() + " cannot be concretised", "model": vals}
		}
		args = append(args, g)
		k += counts[i]
	}
	call := ""
	if fn.Signature.Recv() != nil {
		call = fmt.Sprintf("(%s).%s(%s)", args[0], fn.Name(), strings.Join(args[1:], ", "))
	} else {
		call = fmt.Sprintf("%s(%s)", fn.Name(), strings.Join(args, ", "))
	}
	test := fmt.Sprintf(`package %s

import (
	"fmt"
	"testing"
)

func TestVerifReplay(t *testing.T) {
	defer func() {
		if r := recover(); r != nil {
			fmt.Printf("VERIF-REPLAY panic: %%v\n", r)
		}
	}()
	%s
}
`, fn.Pkg.Pkg.Name(), replayBody(fn, call))
	obs, err := e.runOverlayTest(pkgPath, test)
	rep := map[string]any{"call": call, "test": test, "observed": obs, "model_inputs": vals}
	if err != nil {
		rep["confirmed"] = false
		rep["reason"] = err.Error()
		return rep
	}
	// decide: evaluate the violated clause on the observed outcome by asking the solver again with the
	// observed results pinned to the model's inputs
	confirmed, why := e.confirmAgainstClause(o, fn, terms, vals, obs)
	rep["confirmed"] = confirmed
	rep["reason"] = why
	return rep
}

func replayBody(fn *ssa.Function, call string) string {
	n := fn.Signature.Results().Len()
	if n == 0 {
		return call + "\n\tfmt.Println(\"VERIF-REPLAY returned\")"
	}
	var vs []string
	for i := 0; i < n; i++ {
		vs = append(vs, fmt.Sprintf("r%d", i))
	}
	var sb strings.Builder
	sb.WriteString(strings.Join(vs, ", ") + " := " + call + "\n")
	for i := 0; i < n; i++ {
		sb.WriteString(fmt.Sprintf("\tfmt.Printf(\"VERIF-REPLAY result%d %%T %%#v nil=%%v\\n\", r%d, r%d, fmt.Sprint(r%d) == \"<nil>\")\n", i, i, i, i))
	}
	return sb.String()
}

func (e *engine) runOverlayTest(pkgPath, test string) (string, error) {
	dir, err := os.MkdirTemp("", "gritsvc-replay-")
	if err != nil {
		return "", err
	}
	defer os.RemoveAll(dir)
	rel := strings.TrimPrefix(strings.TrimPrefix(pkgPath, e.w.modPath), "/")
	tf := filepath.Join(dir, "replay_test.go")
	os.WriteFile(tf, []byte(test), 0o644)
	ov := map[string]any{"Replace": map[string]string{filepath.Join(e.w.repo, rel, "zz_verif_replay_test.go"): tf}}
	data, _ := json.Marshal(ov)
	ovf := filepath.Join(dir, "ov.json")
	os.WriteFile(ovf, data, 0o644)
	cmd := exec.Command("go", "test", "-overlay", ovf, "-vet=off", "-count=1", "-timeout", "60s", "-v", "-run", "^TestVerifReplay$", "./"+rel)
	cmd.Dir = e.w.repo
	cmd.Env = append(os.Environ(), "GOFLAGS=-mod=mod", "GOPROXY=off", "GOSUMDB=off", "GOTOOLCHAIN=local")
	done := make(chan struct{})
	var out []byte
	go func() { out, err = cmd.CombinedOutput(); close(done) }()
	select {
	case <-done:
	case <-time.After(120 * time.Second):
		cmd.Process.Kill()
		return "", fmt.Errorf("replay timed out")
	}
	var lines []string
	for _, l := range strings.Split(string(out), "\n") {
		if strings.HasPrefix(l, "VERIF-REPLAY") {
			lines = append(lines, l)
		}
	}
	if len(lines) == 0 {
		return string(out), fmt.Errorf("replay produced no observation")
	}
	return strings.Join(lines, "\n"), nil
}

// confirmAgainstClause: pins the inputs to the model's values and the results to the observed ones and asks
// whether the obligation's negation is still satisfiable (i.e. the real outcome violates the clause).
func (e *engine) confirmAgainstClause(o *obligation, fn *ssa.Function, terms, vals []string, obs string) (bool, string) {
	if strings.Contains(obs, "VERIF-REPLAY panic") {
		if o.Kind == "nopanic" {
			return true, "the real code panics on the model's input"
		}
		return false, "the real code panicked on the model's input (the model predicted a normal return)"
	}
	if o.Kind == "nopanic" {
		return false, "the real code did not panic on the concretised input"
	}
	var pins []string
	for i, t := range terms {
		pins = append(pins, fmt.Sprintf("(= %s %s)", t, vals[i]))
	}
	// results
	vc := o.vc
	m := regexp.MustCompile(`@ret(\d+)$`).FindStringSubmatch(o.Name)
	if vc == nil || m == nil {
		return false, "not an ensures obligation"
	}
	ri, _ := strconv.Atoi(m[1])
	if ri-1 >= len(vc.retResults) {
		return false, "no result terms"
	}
	res := vc.retResults[ri-1]
	rs := fn.Signature.Results()
	for _, l := range strings.Split(obs, "\n") {
		mm := regexp.MustCompile(`^VERIF-REPLAY result(\d+) (\S+) (.*) nil=(true|false)$`).FindStringSubmatch(l)
		if mm == nil {
			continue
		}
		i, _ := strconv.Atoi(mm[1])
		if i >= len(res) {
			continue
		}
		switch u := rs.At(i).Type().Underlying().(type) {
		case *types.Basic:
			switch {
			case u.Info()&types.IsBoolean != 0, u.Info()&types.IsInteger != 0:
				v := mm[3]
				if strings.HasPrefix(v, "-") {
					v = "(- " + v[1:] + ")"
				}
				pins = append(pins, fmt.Sprintf("(= %s %s)", res[i], v))
			case u.Info()&types.IsString != 0:
				s, err := strconv.Unquote(mm[3])
				if err == nil {
					pins = append(pins, fmt.Sprintf("(= %s %s)", res[i], smtString(s)))
				}
			}
		case *types.Pointer, *types.Interface:
			if mm[4] == "true" {
				pins = append(pins, fmt.Sprintf("(= %s nil)", res[i]))
			} else {
				pins = append(pins, fmt.Sprintf("(distinct %s nil)", res[i]))
				tn := strings.TrimPrefix(mm[2], "*")
				for full, id := range e.w.typeIDs {
					short := full[strings.LastIndex(full, "/")+1:]
					if short == tn {
						pins = append(pins, fmt.Sprintf("(= (tyof %s) %d)", res[i], id))
					}
				}
			}
		}
	}
	// does the real outcome violate the clause? The path condition is dropped: only inputs, outputs and the clause remain.
	goal := o.Goal
	script := o.ctx.script(o.NAssume, and(append([]string{goal}, pins...)...), nil)
	r := runSolver("z3-new", script, e.opts.timeout)
	if r.status == "sat" {
		return true, "the real function, run on the model's inputs, returns the values the model predicts and these violate the clause"
	}
	return false, "the observed outcome does not reproduce the model (" + r.status + "): abstraction artefact or nondeterminism"
}
