package main

// Property checks: select the functions a property depends on, generate and discharge their
// obligations, report violations / known findings, write evidence.

import (
	"regexp"
	"encoding/json"
	"fmt"
	"go/types"
	"os"
	"path/filepath"
	"sort"
	"strings"
	"time"

	"golang.org/x/tools/go/ssa"
)

type engine struct {
	goReach map[*ssa.Function]bool // globals.go: functions that can run off the driver's goroutine
	w       *world
	ma      *modAnalysis
	verif   string // /verif
	tier    string
	seed    int
	opts    solveOpts
	vcCache map[vcKey]*funcVC
	vcErr   map[vcKey]error
	known   *knownFindings
	scopes  map[string]map[*ssa.Function]bool
	written map[string]bool
}

// inScope: fn belongs to the safety sweep of the property (reachable from the property's scope roots).
func (e *engine) inScope(fn *ssa.Function, prop string) bool {
	if prop == "" {
		return false
	}
	roots := e.w.db.Scopes[prop]
	if len(roots) == 0 {
		return false
	}
	if e.scopes == nil {
		e.scopes = map[string]map[*ssa.Function]bool{}
	}
	set, ok := e.scopes[prop]
	if !ok {
		set = map[*ssa.Function]bool{}
		for _, f := range e.reachable(roots) {
			set[f] = true
		}
		e.scopes[prop] = set
	}
	return set[fn]
}

func newEngine(repo, verif, tier string, patterns []string) (*engine, error) {
	t0 := time.Now()
	w, err := loadWorld(repo, patterns, "verif")
	if err != nil {
		return nil, err
	}
	db, err := loadAllContracts(repo, w.modPath, filepath.Join(verif, "specs"))
	if err != nil {
		return nil, err
	}
	w.db = db
	w.specReads = w.specFootprints()
	e := &engine{w: w, verif: verif, tier: tier, vcCache: map[vcKey]*funcVC{}, vcErr: map[vcKey]error{}}
	e.ma = w.computeModsets()
	w.inScopeFn = e.inScope
	w.loadSecs = time.Since(t0).Seconds()
	e.opts = solveOpts{timeout: 10 * time.Second, workers: 14}
	if tier == "thorough" {
		e.opts.timeout = 60 * time.Second
		e.opts.twoVotes = true
	}
	if d := os.Getenv("GRITSVC_DUMP"); d != "" {
		e.opts.dumpDir = d
	}
	e.known, err = loadKnownFindings(filepath.Join(verif, "known_findings.json"))
	if err != nil {
		return nil, err
	}
	return e, nil
}

// contractFunc resolves a contract reference to the SSA function (nil for interface/external contracts).
func (e *engine) contractFunc(ct *contract) *ssa.Function {
	if ct.Interface || ct.External {
		return nil
	}
	return e.w.funcs[ct.Ref]
}

func contractMentions(ct *contract, prop string) (labelled, safety bool) {
	for _, cl := range ct.Clauses {
		if strings.HasPrefix(cl.Label, prop+".") {
			labelled = true
		}
	}
	for _, p := range ct.Props {
		if p == prop {
			labelled = true
		}
	}
	for _, p := range ct.Safety {
		if p == prop {
			safety = true
		}
	}
	if ct.hasLayer(prop) {
		labelled = true
	}
	return
}

// implMethods returns the module methods implementing an interface contract "pkg.Iface.Method".
func (e *engine) implMethods(ct *contract) []*ssa.Function {
	i := strings.LastIndex(ct.Ref, ".")
	key, method := ct.Ref[:i], ct.Ref[i+1:]
	var out []*ssa.Function
	for _, im := range e.w.impls[key] {
		m := e.w.prog.LookupMethod(types.NewPointer(im), im.Obj().Pkg(), method)
		if m != nil {
			out = append(out, m)
		}
	}
	return out
}

type vcKey struct {
	fn    *ssa.Function
	layer string
}

// layerFor: a function is verified in the property's own layer if one of its contracts has clauses for it.
func (e *engine) layerFor(fn *ssa.Function, prop string) string {
	if e.inScope(fn, prop) {
		return prop
	}
	if ct := e.w.db.Contracts[fn.String()]; ct != nil && ct.hasLayer(prop) {
		return prop
	}
	// a clause labelled for this property but stated in another property's layer (it needs that layer's
	// preconditions and lemmas): the function is verified in that layer and the clause attributed by its label
	if ct := e.w.db.Contracts[fn.String()]; ct != nil {
		for _, cl := range ct.Clauses {
			if cl.Layer != "" && cl.Layer != prop && strings.HasPrefix(cl.Label, prop+".") {
				return cl.Layer
			}
		}
	}
	for _, ct := range e.w.ifaceContractsFor(fn) {
		if ct.hasLayer(prop) {
			return prop
		}
	}
	return ""
}

func (e *engine) buildVC(fn *ssa.Function, layer string) (*funcVC, error) {
	key := vcKey{fn, layer}
	if vc, ok := e.vcCache[key]; ok {
		return vc, e.vcErr[key]
	}
	vc := &funcVC{w: e.w, fn: fn, c: newSMT(e.w), ma: e.ma, nPanicSites: map[string]int{}, closures: map[string]closureInfo{},
		localSorts: map[string]string{}, callCount: map[string]int{}, siteCount: map[string]int{}, matchedSites: map[*clause]bool{}, coveredSites: map[ssa.Instruction]bool{}, assumed: map[string]bool{}, layer: layer}
	vc.ct = e.w.db.Contracts[fn.String()]
	vc.icts = e.w.ifaceContractsFor(fn)
	if vc.ct != nil && vc.ct.HeapWF {
		vc.c.needWF = true
	}
	seen := map[string]bool{}
	for _, ct := range vc.allContracts() {
		for _, p := range ct.Safety {
			// a property with its own layer gets its panic obligations from the layered VC only
			if layer == "" && e.layerFor(fn, p) != "" {
				continue
			}
			if layer != "" && p != layer {
				continue
			}
			if !seen["s"+p] {
				seen["s"+p] = true
				vc.safetyProps = append(vc.safetyProps, p)
			}
		}
		for _, cl := range ct.clausesFor(layer) {
			if i := strings.Index(cl.Label, "."); i > 0 && !seen[cl.Label[:i]] {
				seen[cl.Label[:i]] = true
				vc.props = append(vc.props, cl.Label[:i])
			}
		}
		for _, p := range ct.Props {
			if !seen[p] {
				seen[p] = true
				vc.props = append(vc.props, p)
			}
		}
	}
	if layer != "" && e.inScope(fn, layer) && !seen["s"+layer] {
		vc.safetyProps = append(vc.safetyProps, layer)
	}
	vc.safety = len(vc.safetyProps) > 0
	vc.termP = vc.safetyProps
	err := vc.run()
	e.vcCache[key] = vc
	e.vcErr[key] = err
	return vc, err
}

type checkResult struct {
	prop        string
	funcs       []string
	support     []string
	obls        []*obligation
	errors      []string
	unsupported []string
	assumptions map[string]bool
	notes       map[string]bool
	lemmas      int
	wall        float64
}

// alwaysInlined: the static part of (*frame).willInline - a loop-free, non-recursive function without a contract (or
// with an `inline` contract) that is not reached through an interface is executed in place wherever it is called.
// (Beyond the inlining depth such a call is treated as opaque and recorded as an assumption.)
func (e *engine) alwaysInlined(fn *ssa.Function) bool {
	ct := e.w.db.Contracts[fn.String()]
	if ct != nil && !ct.Inline {
		return false
	}
	if fn.Signature.Recv() != nil && e.w.implementsModuleIface(fn) {
		return false
	}
	if fn.Parent() != nil {
		return false // closures are reached through go/defer/function values
	}
	if e.w.recFuncs == nil {
		e.w.computeSCCs(e.ma)
	}
	if e.w.recFuncs[fn] && (ct == nil || !ct.Inline) {
		return false
	}
	if ct == nil || !ct.Inline {
		for _, b := range fn.Blocks {
			for _, sc := range b.Succs {
				if sc.Dominates(b) {
					return false
				}
			}
		}
	}
	return true
}

// promises: some contract of fn has a postcondition (or ghost event) visible in the layer.
func (e *engine) promises(fn *ssa.Function, layer string) bool {
	var cts []*contract
	if ct := e.w.db.Contracts[fn.String()]; ct != nil {
		cts = append(cts, ct)
	}
	cts = append(cts, e.w.ifaceContractsFor(fn)...)
	for _, ct := range cts {
		if len(ct.Emits) > 0 || ct.Pure || ct.NoReturn || len(ct.Modifies) > 0 {
			return true
		}
		for _, cl := range ct.clausesFor(layer) {
			if cl.Kind == "ensures" {
				return true
			}
		}
	}
	return false
}

// reachable: the module functions reachable from the named roots over static calls, interface dispatch within the
// module, go statements, defers and closures.
func (e *engine) reachable(roots []string) []*ssa.Function {
	seen := map[*ssa.Function]bool{}
	var order []*ssa.Function
	var visit func(fn *ssa.Function)
	visit = func(fn *ssa.Function) {
		if fn == nil || seen[fn] || fn.Blocks == nil {
			return
		}
		if fn.Pkg != nil && !e.w.inModule(fn.Pkg.Pkg.Path()) {
			return
		}
		if fn.Pkg == nil && (fn.Parent() == nil || fn.Parent().Pkg == nil || !e.w.inModule(fn.Parent().Pkg.Pkg.Path())) {
			if _, ok := e.w.funcs[fn.String()]; !ok {
				return
			}
		}
		seen[fn] = true
		order = append(order, fn)
		for _, b := range fn.Blocks {
			for _, ins := range b.Instrs {
				if ci, ok := ins.(ssa.CallInstruction); ok {
					fs, _ := e.ma.callees(ci.Common())
					for _, f := range fs {
						visit(f)
					}
				}
				if mc, ok := ins.(*ssa.MakeClosure); ok {
					visit(mc.Fn.(*ssa.Function))
				}
			}
		}
	}
	for _, r := range roots {
		visit(e.w.funcs[r])
	}
	return order
}

func (e *engine) plan(prop string) (primary []*ssa.Function, err error) {
	seen := map[*ssa.Function]bool{}
	scoped := len(e.w.db.Scopes[prop]) > 0
	for _, ref := range sortedKeys(e.w.db.Contracts) {
		if scoped {
			break // a property with a scope is decided on exactly the functions reachable from its roots
		}
		ct := e.w.db.Contracts[ref]
		lab, saf := contractMentions(ct, prop)
		if !lab && !saf {
			continue
		}
		if ct.externalIn(prop) {
			continue
		}
		if ct.Interface {
			for _, m := range e.implMethods(ct) {
				if !seen[m] {
					seen[m] = true
					primary = append(primary, m)
				}
			}
			continue
		}
		fn := e.contractFunc(ct)
		if fn == nil {
			return nil, fmt.Errorf("%s:%d: contract for unknown function %s", ct.File, ct.Line, ct.Ref)
		}
		if !seen[fn] {
			seen[fn] = true
			primary = append(primary, fn)
		}
	}
	if roots := e.w.db.Scopes[prop]; len(roots) > 0 {
		for _, r := range roots {
			if e.w.funcs[r] == nil {
				return nil, fmt.Errorf("scope %s: unknown root function %s", prop, r)
			}
		}
		isRoot := map[string]bool{}
		for _, r := range roots {
			isRoot[r] = true
		}
		for _, fn := range e.reachable(roots) {
			// functions that are always executed in place at their call sites are checked there, in context
			if !isRoot[fn.String()] && e.alwaysInlined(fn) {
				continue
			}
			if !seen[fn] {
				seen[fn] = true
				primary = append(primary, fn)
			}
		}
	}
	return primary, nil
}

func (e *engine) check(prop string) *checkResult {
	t0 := time.Now()
	res := &checkResult{prop: prop, assumptions: map[string]bool{}, notes: map[string]bool{}}
	primary, err := e.plan(prop)
	if err != nil {
		res.errors = append(res.errors, err.Error())
		return res
	}
	if only := os.Getenv("GRITSVC_ONLY"); only != "" {
		// development aid: restrict the primary functions (never used by the registered commands)
		re := regexp.MustCompile(only)
		var keep []*ssa.Function
		for _, f := range primary {
			if re.MatchString(f.String()) {
				keep = append(keep, f)
			}
		}
		primary = keep
		res.notes["GRITSVC_ONLY="+only+": partial run"] = true
	}
	inSet := map[*ssa.Function]bool{}
	isPrimary := map[*ssa.Function]bool{}
	work := append([]*ssa.Function{}, primary...)
	for _, f := range primary {
		inSet[f], isPrimary[f] = true, true
	}
	usedBy := map[*ssa.Function]bool{} // functions whose contract is used by another function of the set
	var order []*ssa.Function
	for len(work) > 0 {
		fn := work[0]
		work = work[1:]
		order = append(order, fn)
		vc, err := e.buildVC(fn, e.layerFor(fn, prop))
		if err != nil {
			res.errors = append(res.errors, err.Error())
			continue
		}
		for label := range vc.callCount {
			var callees []*ssa.Function
			if ct := e.w.db.Contracts[label]; ct != nil {
				if ct.externalIn(prop) {
					continue
				}
				if ct.Interface {
					callees = e.implMethods(ct)
				} else if f := e.contractFunc(ct); f != nil {
					callees = []*ssa.Function{f}
				}
			} else if f := e.w.funcs[label]; f != nil {
				callees = []*ssa.Function{f} // statically called method covered by an interface contract
			}
			for _, cf := range callees {
				// a callee whose contracts promise nothing in this layer contributes no assumption to its callers
				// (its frame comes from the write analysis): it need not be re-verified as support
				if !e.inScope(cf, prop) && !e.promises(cf, e.layerFor(fn, prop)) {
					continue
				}
				if cf != fn {
					usedBy[cf] = true
				}
				if !inSet[cf] && os.Getenv("GRITSVC_ONLY") == "" {
					inSet[cf] = true
					work = append(work, cf)
				}
			}
		}
	}
	for _, fn := range order {
		layer := e.layerFor(fn, prop)
		vc := e.vcCache[vcKey{fn, layer}]
		if vc == nil || e.vcErr[vcKey{fn, layer}] != nil {
			continue
		}
		if isPrimary[fn] {
			res.funcs = append(res.funcs, fn.String())
		} else {
			res.support = append(res.support, fn.String())
		}
		for _, u := range vc.c.unsupported {
			res.unsupported = append(res.unsupported, fn.String()+": "+u)
		}
		for a := range vc.assumed {
			if layer != "" && e.inScope(fn, layer) && strings.HasPrefix(a, "uncontracted module ") {
				// within a sweep every module function is itself checked: what remains assumed is only that the
				// result of the call is unconstrained (an over-approximation)
				continue
			}
			res.assumptions[a] = true
		}
		for a := range vc.c.usedAxioms {
			res.assumptions[a] = true
		}
		for _, n := range vc.c.notes {
			res.notes[n] = true
		}
		for _, o := range vc.obls {
			if layer == "" && !e.attributed(o, prop, isPrimary[fn], usedBy[fn]) {
				continue
			}
			if layer != "" && o.Kind == "ensures" && !e.attributed(o, prop, isPrimary[fn], usedBy[fn]) {
				continue
			}
			if layer != "" && o.Kind == "ensures" && len(e.w.db.Scopes[prop]) > 0 && len(o.Props) > 0 && !hasStr(o.Props, prop) {
				// a sweep uses the postconditions labelled for other properties as proved by those properties' own
				// checks (in the base layer, under fewer assumptions); it does not re-prove them in its own layer
				res.assumptions["postcondition "+o.Label+" is used as proved by the check of property "+o.Props[0]] = true
				continue
			}
			res.obls = append(res.obls, o)
		}
	}
	// module-wide frame obligations for package-level state
	if e.w.db.GlobalFrame[prop] {
		res.obls = append(res.obls, e.globalFrameObls(prop, res)...)
	}
	if g := e.w.db.Grammars[prop]; g != nil {
		res.obls = append(res.obls, e.grammarObls(prop, g)...)
	}
	if e.w.db.Discipline[prop] {
		res.obls = append(res.obls, e.atomicObls(prop)...)
		res.obls = append(res.obls, e.movedObls(prop)...)
		res.obls = append(res.obls, e.sharedObls(prop)...)
	}
	// lemmas
	for _, lm := range e.w.db.Lemmas {
		if !strings.HasPrefix(lm.Label, prop+".") {
			continue
		}
		o, err := e.lemmaObl(lm)
		if err != nil {
			res.errors = append(res.errors, err.Error())
			continue
		}
		res.obls = append(res.obls, o)
		res.lemmas++
	}
	var todo []*obligation
	for _, o := range res.obls {
		if o.Status == "" {
			todo = append(todo, o)
		}
	}
	if e.tier == "quick" && os.Getenv("GRITSVC_NOINC") == "" {
		solveAllQuick(todo, e.opts)
	} else {
		solveAll(todo, e.opts)
	}
	res.wall = time.Since(t0).Seconds()
	return res
}

func hasStr(xs []string, x string) bool {
	for _, y := range xs {
		if y == x {
			return true
		}
	}
	return false
}

func (e *engine) attributed(o *obligation, prop string, primary, used bool) bool {
	has := func(ps []string) bool {
		for _, p := range ps {
			if p == prop {
				return true
			}
		}
		return false
	}
	switch o.Kind {
	case "nopanic", "variant":
		return has(o.Props)
	case "ensures":
		if has(o.Props) || used {
			return true
		}
		return false
	default: // pre, inv, vacuity, frame
		return true
	}
}

// writtenKeys: the heap arrays some module function may write at objects that can pre-exist a call. All other
// arrays have the same value in every state of every execution.
func (e *engine) writtenKeys() map[string]bool {
	if e.written != nil {
		return e.written
	}
	e.written = map[string]bool{}
	for _, ms := range e.ma.sets {
		if ms == nil {
			continue
		}
		for k := range ms.real {
			e.written[k] = true
		}
	}
	return e.written
}

// lemmaQuant strips the top-level universal quantifiers of a lemma.
func lemmaQuant(e cExpr) (vars []cBinder, body cExpr) {
	body = e
	for {
		q, ok := body.(*cQuant)
		if !ok || !q.Forall {
			return
		}
		vars = append(vars, q.Vars...)
		body = q.Body
	}
}

// lemmaReads: the heap keys a lemma reads (directly, through macros and through the footprints of spec functions).
func (w *world) lemmaReads(lm *lemmaDef) map[string]bool {
	if lm.reads != nil {
		return lm.reads
	}
	c := newSMT(w)
	st := &state{heap: map[string]string{}, locals: map[string]string{}, base: map[string]heapBase{}, alloc: c.declConst("A!0", "Int")}
	tr := &trans{c: c, pkg: lm.Pkg, vars: map[string]tvar{}, cur: st, old: st, depth: 0, reads: map[string]bool{}}
	func() {
		defer func() { recover() }()
		tr.formula(lm.Expr)
	}()
	lm.reads = tr.reads
	return lm.reads
}

func (e *engine) lemmaObl(lm *lemmaDef) (o *obligation, err error) {
	defer func() {
		if r := recover(); r != nil {
			if te, ok := r.(transError); ok {
				err = fmt.Errorf("%s:%d: lemma %s: %s", relPath(lm.File), lm.Line, lm.Label, string(te))
				return
			}
			panic(r)
		}
	}()
	c := newSMT(e.w)
	st := &state{heap: map[string]string{}, locals: map[string]string{}, base: map[string]heapBase{}, alloc: c.declConst("A!0", "Int")}
	cur := st
	prop := lm.Label[:strings.Index(lm.Label, ".")]
	if lm.TwoState {
		// the two heaps differ (arbitrarily) on every array some module function may write; arrays nobody writes are
		// the same in all states. A first translation pass declares the sorts of the arrays read.
		pass := &trans{c: c, pkg: lm.Pkg, vars: map[string]tvar{}, cur: st, old: st, depth: 0, reads: map[string]bool{}}
		pass.formula(lm.Expr)
		reads := pass.reads
		for _, l2 := range e.w.db.Lemmas {
			if l2 == lm {
				break
			}
			if l2.TwoState && strings.HasPrefix(l2.Label, prop+".") {
				p2 := &trans{c: c, pkg: l2.Pkg, vars: map[string]tvar{}, cur: st, old: st, depth: 0, reads: reads}
				p2.formula(l2.Expr)
			}
		}
		cur = st.clone()
		written := e.writtenKeys()
		for _, k := range sortedKeys(reads) {
			if written[k] {
				if _, ok := c.heapSorts[k]; ok {
					cur.heap[k] = c.declConst("H1_"+k, c.heapSorts[k])
				}
			}
		}
		cur.alloc = c.declConst("A!1", "Int")
		c.assume("(>= A!1 A!0)")
	}
	tr := &trans{c: c, pkg: lm.Pkg, vars: map[string]tvar{}, cur: cur, old: st, depth: 2}
	// a top-level universal quantifier is skolemised (we refute the negation), so that spec applications
	// over the quantified variables are ground and get unfolded
	qvars, body := lemmaQuant(lm.Expr)
	for _, b := range qvars {
		vt := tr.resolveType(b.Type)
		n := c.declConst("sk_"+b.Name, vt.sort)
		tr.vars[b.Name] = tvar{n, vt}
		if vt.gt != nil {
			(&funcVC{w: e.w, c: c}).typed(n, vt.gt, st)
		}
	}
	if lm.TwoState {
		// earlier two-state lemmas of the same property may be used
		for _, l2 := range e.w.db.Lemmas {
			if l2 == lm {
				break
			}
			if l2.TwoState && strings.HasPrefix(l2.Label, prop+".") {
				t2 := &trans{c: c, pkg: l2.Pkg, vars: map[string]tvar{}, cur: cur, old: st, depth: 0}
				c.assume(t2.formula(l2.Expr))
			}
		}
	}
	if lm.Measure != nil {
		// induction hypothesis: the lemma for all instances of smaller non-negative measure
		m, mt := tr.expr(lm.Measure)
		if mt.sort != "Int" {
			tr.fail("the induction measure must be an integer")
		}
		ih := &trans{c: c, pkg: lm.Pkg, vars: map[string]tvar{"ih$m": {m, vtype{"Int", types.Typ[types.Int]}}}, cur: cur, old: st, depth: 0}
		guard := &cBin{Op: "&&", X: &cBin{Op: ">=", X: lm.Measure, Y: &cInt{V: "0"}}, Y: &cBin{Op: "<", X: lm.Measure, Y: &cIdent{Name: "ih$m"}}}
		c.assume(ih.formula(&cQuant{Forall: true, Vars: qvars, Body: &cBin{Op: "==>", X: guard, Y: body}}))
	}
	f := tr.formula(body)
	o = &obligation{Func: "lemma", Name: "lemma/" + lm.Label, Kind: "lemma", Label: lm.Label, Props: []string{prop}, Goal: not(f), ctx: c,
		NAssume: len(c.assumes), Pos: fmt.Sprintf("%s:%d", relPath(lm.File), lm.Line), Clause: lm.Src}
	return o, nil
}

// ---------------------------------------------------------------------------------------------
// reporting

type evidence struct {
	PropertyID  string         `json:"property_id"`
	Tier        string         `json:"tier"`
	Seed        int            `json:"seed"`
	Level       string         `json:"level"`
	Coverage    map[string]any `json:"coverage"`
	Assumptions []string       `json:"assumptions"`
	WallS       float64        `json:"wall_s"`
	Violations  int            `json:"violations"`
}

func (e *engine) report(res *checkResult) (exit int) {
	prop := res.prop
	var failing []*obligation
	discharged, total, vacIncon := 0, 0, 0
	bySolver := map[string]int{}
	solverSecs := 0.0
	var slowest *obligation
	for _, o := range res.obls {
		solverSecs += o.Secs
		if slowest == nil || o.Secs > slowest.Secs {
			slowest = o
		}
		if o.Kind == "vacuity" {
			switch o.Status {
			case "discharged":
			case "inconclusive":
				vacIncon++
			default:
				failing = append(failing, o)
			}
			continue
		}
		total++
		if o.Status == "discharged" {
			discharged++
			bySolver[o.Solver]++
		} else {
			failing = append(failing, o)
		}
	}
	// known findings
	var violations []*obligation
	var knownLines []string
	excused := 0
	for _, o := range failing {
		if kf := e.known.match(prop, o); kf != nil && e.excuse(o, kf) {
			o.Excused = kf.ID
			excused++
			line := fmt.Sprintf("KNOWN-FINDING: property=%s %s: %s [%s]", prop, kf.ID, kf.What, o.Name)
			knownLines = append(knownLines, line)
			continue
		}
		violations = append(violations, o)
	}
	sort.Strings(knownLines)
	seenLine := map[string]bool{}
	for _, l := range knownLines {
		if !seenLine[l] {
			seenLine[l] = true
			fmt.Println(l)
		}
	}
	replayDir := filepath.Join(e.verif, "replays", prop)
	os.RemoveAll(replayDir)
	for _, o := range violations {
		os.MkdirAll(replayDir, 0o755)
		path := filepath.Join(replayDir, mangle(strings.TrimPrefix(o.Name, e.w.modPath+"/"))+".json")
		suffix := e.writeReplay(path, prop, o)
		fmt.Printf("VIOLATION property=%s replay=%s%s\n", prop, path, suffix)
		fmt.Printf("  obligation %s [%s] %s\n  clause: %s\n  at %s\n", o.Name, o.Status, o.Output, o.Clause, o.Pos)
	}
	for _, er := range res.errors {
		os.MkdirAll(replayDir, 0o755)
		path := filepath.Join(replayDir, "engine-error.json")
		os.WriteFile(path, []byte(fmt.Sprintf("{\"error\": %q}\n", er)), 0o644)
		fmt.Printf("VIOLATION property=%s replay=%s no-failing-input-found\n  engine error: %s\n", prop, path, er)
	}
	if len(res.unsupported) > 0 {
		for _, u := range res.unsupported {
			fmt.Printf("OUTSIDE-SUBSET: %s\n", u)
		}
	}
	// evidence
	var samples []any
	for i, o := range res.obls {
		if i%maxInt(1, len(res.obls)/6) == 0 && len(samples) < 8 {
			samples = append(samples, map[string]any{"obligation": o.Name, "kind": o.Kind, "clause": o.Clause, "at": o.Pos, "status": o.Status,
				"solver": o.Solver, "secs": round3(o.Secs), "smt_bytes": o.SizeB})
		}
	}
	var perObl []any
	for _, o := range res.obls {
		m := map[string]any{"name": o.Name, "status": o.Status, "solver": o.Solver, "secs": round3(o.Secs)}
		if o.Excused != "" {
			m["excused_by"] = o.Excused
		}
		perObl = append(perObl, m)
	}
	trusted := []string{
		"go/ssa (x/tools v0.29.0) construction of SSA from /repo's working tree",
		"our SMT semantics of the SSA subset (DESIGN.md §2, Appendix D); integers are mathematical, not 64-bit",
		"z3 5.1.0 / z3 4.8.12 / cvc5 1.0 soundness",
	}
	for _, a := range sortedKeys(res.assumptions) {
		trusted = append(trusted, a)
	}
	var assumptions []string
	assumptions = append(assumptions, trusted...)
	for _, n := range sortedKeys(res.notes) {
		assumptions = append(assumptions, "abstraction: "+n)
	}
	for _, u := range res.unsupported {
		assumptions = append(assumptions, "outside subset (function not counted as proved): "+u)
	}
	// a sweep's root functions are entered by code outside the sweep: their preconditions are assumptions about
	// that caller (for Typecheck: about what the parser and the mode-inference pass hand over)
	for _, r := range e.w.db.Scopes[prop] {
		if ct := e.w.db.Contracts[r]; ct != nil {
			for _, cl := range ct.clausesFor(prop) {
				if cl.Kind == "requires" {
					assumptions = append(assumptions, "precondition of the sweep's entry point "+r+", assumed of its callers: "+cl.Src)
				}
			}
		}
	}
	// preconditions in the property's own layer: proved at the static call sites inside verified functions, but a
	// function entered by dynamic dispatch, through a function value, as a goroutine or from code that is not under
	// contract gets them as assumptions about its caller
	if len(e.w.db.Scopes[prop]) == 0 {
		seenReq := map[string]bool{}
		for _, fnName := range res.funcs {
			ct := e.w.db.Contracts[fnName]
			if ct == nil {
				continue
			}
			for _, cl := range ct.Clauses {
				if cl.Kind == "requires" && cl.Layer == prop && !seenReq[fnName+cl.Src] {
					seenReq[fnName+cl.Src] = true
					assumptions = append(assumptions, "precondition of "+fnName+" (checked at static calls from verified functions, assumed of every other caller): "+cl.Src)
				}
			}
		}
	}
	for _, cl := range e.w.db.Invariants[prop] {
		assumptions = append(assumptions, "state invariant of the sweep, assumed on entry to its entry point (and proved at every exit, call and loop head inside): "+cl.Src)
	}
	if len(e.w.db.Markers) > 0 {
		assumptions = append(assumptions, "assume/axiom markers in contract files: "+strings.Join(e.w.db.Markers, " | "))
	} else {
		assumptions = append(assumptions, "scan of contract files for assume/axiom/trusted/admit markers: none")
	}
	cov := map[string]any{
		// obligations excused by a committed known finding are neither claimed nor counted as proved: they are
		// listed separately (known_findings_excused) and the claim is about the remaining ones
		"obligations":              total - excused,
		"obligations_generated":    total,
		"discharged":               discharged,
		"checker_cmd":              fmt.Sprintf("bin/gritsvc check -property %s -tier %s", prop, e.tier),
		"trusted_base":             trusted,
		"functions_under_contract": res.funcs,
		"support_cone":             res.support,
		"lemmas":                   res.lemmas,
		"vacuity_checks":           len(res.obls) - total,
		"vacuity_inconclusive":     vacIncon,
		"by_solver":                bySolver,
		"solver_secs_total":        round3(solverSecs),
		"load_and_ssa_secs":        round3(e.w.loadSecs),
		"known_findings_excused":   excused,
		"per_obligation":           perObl,
		"samples":                  samples,
		"contract_files":           relPaths(e.w.db.Files),
		"explanation":              "weakest-precondition style VCs generated from go/ssa of /repo's working tree for the listed functions against their //@ contracts; every obligation decided by SMT",
	}
	if slowest != nil {
		cov["slowest_obligation"] = map[string]any{"name": slowest.Name, "secs": round3(slowest.Secs)}
	}
	cov["evaluations"] = total
	cov["distinct_nontrivial"] = total
	cov["rule"] = "one evaluation = one generated proof obligation (distinct by name); vacuity checks are not counted"
	ev := evidence{PropertyID: prop, Tier: e.tier, Seed: e.seed, Level: "proof", Coverage: cov, Assumptions: assumptions, WallS: round3(res.wall + e.w.loadSecs), Violations: len(violations) + len(res.errors)}
	os.MkdirAll(filepath.Join(e.verif, "evidence"), 0o755)
	data, _ := json.MarshalIndent(ev, "", " ")
	os.WriteFile(filepath.Join(e.verif, "evidence", prop+".json"), append(data, '\n'), 0o644)
	fmt.Printf("property %s: %d/%d obligations discharged (%d functions + %d support, %d lemmas, %d excused by known findings, %d vacuity inconclusive) in %.1fs\n",
		prop, discharged, total, len(res.funcs), len(res.support), res.lemmas, excused, vacIncon, res.wall)
	if len(violations) > 0 || len(res.errors) > 0 {
		return 1
	}
	if total == 0 {
		fmt.Printf("VIOLATION property=%s replay=%s no-failing-input-found\n  no obligations were generated (vacuous check)\n", prop, filepath.Join(replayDir, "engine-error.json"))
		return 1
	}
	return 0
}

func relPaths(ps []string) []string {
	var out []string
	for _, p := range ps {
		out = append(out, relPath(p))
	}
	return out
}

func maxInt(a, b int) int {
	if a > b {
		return a
	}
	return b
}

func round3(f float64) float64 { return float64(int(f*1000+0.5)) / 1000 }
