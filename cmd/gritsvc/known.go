package main

// Known findings: committed list of genuine defects recorded rather than repaired. An entry excuses a
// failing obligation only if "obligation OR excuse" is provable, so a different violation of the same
// property (even in the same function) is still reported.

import (
	"encoding/json"
	"fmt"
	"os"
	"regexp"
	"strings"
)

type knownFinding struct {
	ID         string `json:"id"`
	Property   string `json:"property"`
	Obligation string `json:"obligation"` // regexp on the obligation name
	What       string `json:"what"`
	Witness    string `json:"witness"`
	Excuse     string `json:"excuse"` // contract-language formula over the function's parameters; "" = the whole obligation
	re         *regexp.Regexp
}

type knownFindings struct {
	Findings []*knownFinding `json:"findings"`
	Fixed    []string        `json:"fixed"`
}

func loadKnownFindings(path string) (*knownFindings, error) {
	kf := &knownFindings{}
	data, err := os.ReadFile(path)
	if err != nil {
		if os.IsNotExist(err) {
			return kf, nil
		}
		return nil, err
	}
	if err := json.Unmarshal(data, kf); err != nil {
		return nil, fmt.Errorf("%s: %v", path, err)
	}
	for _, f := range kf.Findings {
		re, err := regexp.Compile(f.Obligation)
		if err != nil {
			return nil, fmt.Errorf("%s: finding %s: %v", path, f.ID, err)
		}
		f.re = re
	}
	return kf, nil
}

func (k *knownFindings) match(prop string, o *obligation) *knownFinding {
	for _, f := range k.Findings {
		if f.Property == prop && f.re.MatchString(o.Name) {
			return f
		}
	}
	return nil
}

// excuse proves "obligation ∨ φ": the failure only occurs for inputs described by the finding.
func (e *engine) excuse(o *obligation, kf *knownFinding) bool {
	if strings.TrimSpace(kf.Excuse) == "" {
		return true
	}
	fn := e.w.funcs[o.Func]
	if fn == nil {
		return false
	}
	vc := e.vcCache[vcKey{fn, e.layerFor(fn, kf.Property)}]
	if vc == nil {
		return false
	}
	ex, err := parseCExpr(kf.Excuse)
	if err != nil {
		fmt.Fprintf(os.Stderr, "known finding %s: %v\n", kf.ID, err)
		return false
	}
	ok := false
	func() {
		defer func() {
			if r := recover(); r != nil {
				fmt.Fprintf(os.Stderr, "known finding %s: %v\n", kf.ID, r)
			}
		}()
		tr := &trans{c: vc.c, pkg: fn.Pkg.Pkg.Path(), vars: map[string]tvar{}, cur: vc.entry, old: vc.entry, depth: 1}
		for n, v := range vc.paramVars {
			tr.vars[n] = v
		}
		phi := tr.formula(ex)
		o2 := *o
		o2.Goal = and(o.Goal, not(phi))
		o2.NAssume = len(vc.c.assumes)
		decide(&o2, e.opts)
		ok = o2.Status == "discharged"
		o.Output += fmt.Sprintf("; with excuse %s: %s", kf.ID, o2.Status)
	}()
	return ok
}
