package main

// Translation of contract expressions to SMT terms.

import (
	"os"
	"regexp"
	"fmt"
	"go/token"
	"go/types"
	"strings"
)

type vtype struct {
	sort string
	gt   types.Type // nil for pure SMT sorts
}

type tvar struct {
	term string
	vt   vtype
}

type trans struct {
	c      *smtctx
	pkg    string // package path for type-name resolution
	vars   map[string]tvar
	cur    *state
	old    *state
	bound  map[string]bool // quantifier-bound variable names in scope
	depth  int             // remaining unfolding budget for spec applications
	reads  map[string]bool // heap keys read (footprint collection)
	inSpec string
	macroDepth int
	noBase bool
}

func (t *trans) fail(f string, a ...any) {
	panic(transError(fmt.Sprintf(f, a...)))
}

type transError string

func (t *trans) sub(cur *state) *trans {
	n := *t
	n.cur = cur
	return &n
}

func (t *trans) withVars(vs map[string]tvar) *trans {
	n := *t
	n.vars = map[string]tvar{}
	for k, v := range t.vars {
		n.vars[k] = v
	}
	for k, v := range vs {
		n.vars[k] = v
	}
	return &n
}

// resolveType turns a type written in a contract into (sort, Go type).
func (t *trans) resolveType(s string) vtype {
	s = strings.TrimSpace(s)
	switch s {
	case "int", "Int":
		return vtype{"Int", types.Typ[types.Int]}
	case "bool", "Bool":
		return vtype{"Bool", types.Typ[types.Bool]}
	case "string", "String", "Str":
		return vtype{"String", types.Typ[types.String]}
	case "Ref":
		return vtype{"Ref", nil}
	case "StrSet":
		return vtype{"(Array String Bool)", nil}
	case "RefSet":
		return vtype{"(Array Ref Bool)", nil}
	case "IntSet":
		return vtype{"(Array Int Bool)", nil}
	}
	if strings.HasPrefix(s, "Arr[") {
		// Arr[K]V : a mathematical array
		d, end := 0, -1
		for i := 3; i < len(s); i++ {
			if s[i] == '[' {
				d++
			}
			if s[i] == ']' {
				d--
				if d == 0 {
					end = i
					break
				}
			}
		}
		if end > 0 {
			k := t.resolveType(s[4:end])
			v := t.resolveType(s[end+1:])
			return vtype{fmt.Sprintf("(Array %s %s)", k.sort, v.sort), nil}
		}
	}
	if strings.HasPrefix(s, "Set[") && strings.HasSuffix(s, "]") {
		in := t.resolveType(s[4 : len(s)-1])
		return vtype{fmt.Sprintf("(Array %s Bool)", in.sort), nil}
	}
	gt := t.goType(s)
	if gt == nil {
		t.fail("unknown type %q (package %s)", s, t.pkg)
	}
	return vtype{t.c.sortOf(gt), gt}
}

func (t *trans) goType(s string) types.Type {
	// package-qualified names of module packages (types.X, process.X): evaluate in that package
	for path, sp := range t.c.w.pkgs {
		if !t.c.w.inModule(path) {
			continue
		}
		q := sp.Pkg.Name() + "."
		if strings.Contains(s, q) {
			tv, err := types.Eval(token.NewFileSet(), sp.Pkg, token.NoPos, strings.ReplaceAll(s, q, ""))
			if err == nil && tv.IsType() {
				return tv.Type
			}
		}
	}
	p := t.c.w.pkgs[t.pkg]
	var tp *types.Package
	if p != nil {
		tp = p.Pkg
	}
	// allow short package qualifiers of module packages (types.X, process.X) from anywhere
	if tp == nil {
		for path, sp := range t.c.w.pkgs {
			if t.c.w.inModule(path) && strings.HasSuffix(path, "/process") {
				tp = sp.Pkg
			}
		}
	}
	tv, err := types.Eval(token.NewFileSet(), tp, token.NoPos, s)
	if err == nil && tv.IsType() {
		return tv.Type
	}
	// try other module packages
	for path, sp := range t.c.w.pkgs {
		if !t.c.w.inModule(path) {
			continue
		}
		tv, err := types.Eval(token.NewFileSet(), sp.Pkg, token.NoPos, s)
		if err == nil && tv.IsType() {
			return tv.Type
		}
	}
	return nil
}

func (t *trans) formula(e cExpr) string {
	s, vt := t.expr(e)
	if vt.sort != "Bool" {
		t.fail("expected a Boolean, got %s in %s", vt.sort, e.String())
	}
	return s
}

func ptrElem(gt types.Type) types.Type {
	if gt == nil {
		return nil
	}
	if p, ok := gt.Underlying().(*types.Pointer); ok {
		return p.Elem()
	}
	return nil
}

func (t *trans) read(key string) string {
	if t.reads != nil {
		t.reads[key] = true
	}
	return t.c.heapGet(t.cur, key)
}

func (t *trans) expr(e cExpr) (string, vtype) {
	c := t.c
	switch x := e.(type) {
	case *cInt:
		return x.V, vtype{"Int", types.Typ[types.Int]}
	case *cStr:
		return smtString(x.V), vtype{"String", types.Typ[types.String]}
	case *cIdent:
		if v, ok := t.vars[x.Name]; ok {
			return v.term, v.vt
		}
		switch x.Name {
		case "true", "false":
			return x.Name, vtype{"Bool", types.Typ[types.Bool]}
		case "nil":
			return "nil", vtype{"Ref", nil}
		case "emptyStrSet":
			return "((as const (Array String Bool)) false)", vtype{"(Array String Bool)", nil}
		}
		if gt, ok := c.w.db.Ghosts[x.Name]; ok {
			vt := t.resolveType(gt)
			key := "G_" + x.Name
			c.heapSorts[key] = vt.sort
			return t.read(key), vt
		}
		// package-level constant of the module?
		if p := c.w.pkgs[t.pkg]; p != nil {
			if cn, ok := p.Pkg.Scope().Lookup(x.Name).(*types.Const); ok {
				return constTerm(cn), vtype{c.sortOf(cn.Type()), cn.Type()}
			}
		}
		t.fail("unknown identifier %q", x.Name)
	case *cUn:
		s, vt := t.expr(x.X)
		switch x.Op {
		case "!":
			return not(s), vt
		case "-":
			return "(- " + s + ")", vt
		}
	case *cBin:
		switch x.Op {
		case "&&":
			return and(t.formula(x.X), t.formula(x.Y)), vtype{"Bool", nil}
		case "||":
			return or(t.formula(x.X), t.formula(x.Y)), vtype{"Bool", nil}
		case "==>":
			return implies(t.formula(x.X), t.formula(x.Y)), vtype{"Bool", nil}
		case "<==>":
			return "(= " + t.formula(x.X) + " " + t.formula(x.Y) + ")", vtype{"Bool", nil}
		}
		a, at := t.expr(x.X)
		b, bt := t.expr(x.Y)
		switch x.Op {
		case "==", "!=":
			if at.sort != bt.sort {
				t.fail("comparison of different sorts %s and %s in %s", at.sort, bt.sort, e.String())
			}
			r := "(= " + a + " " + b + ")"
			if x.Op == "!=" {
				r = not(r)
			}
			return r, vtype{"Bool", nil}
		case "<", "<=", ">", ">=":
			if at.sort == "String" {
				op := map[string]string{"<": "str.<", "<=": "str.<="}[x.Op]
				if op == "" {
					t.fail("string comparison %s unsupported", x.Op)
				}
				return "(" + op + " " + a + " " + b + ")", vtype{"Bool", nil}
			}
			return "(" + x.Op + " " + a + " " + b + ")", vtype{"Bool", nil}
		case "+":
			if at.sort == "String" {
				return "(str.++ " + a + " " + b + ")", at
			}
			return "(+ " + a + " " + b + ")", at
		case "-", "*":
			return "(" + x.Op + " " + a + " " + b + ")", at
		case "/":
			return "(div " + a + " " + b + ")", at
		case "%":
			return "(mod " + a + " " + b + ")", at
		}
	case *cField:
		// pkg.CONST: a package-level constant of another module package
		if id, ok := x.X.(*cIdent); ok {
			if _, bound := t.vars[id.Name]; !bound {
				for path, p := range c.w.pkgs {
					if path == id.Name || strings.HasSuffix(path, "/"+id.Name) {
						if cn, ok := p.Pkg.Scope().Lookup(x.F).(*types.Const); ok {
							return constTerm(cn), vtype{c.sortOf(cn.Type()), cn.Type()}
						}
					}
				}
			}
		}
		if addr, gt, ok := t.place(x); ok {
			return t.loadAt(addr, gt), vtype{c.sortOf(gt), gt}
		}
		s, vt := t.expr(x.X)
		if vt.gt == nil {
			t.fail("field %s of a value without Go type (%s)", x.F, x.X.String())
		}
		if el := ptrElem(vt.gt); el != nil {
			st, ok := el.Underlying().(*types.Struct)
			if !ok {
				t.fail("field %s of pointer to non-struct %s", x.F, el)
			}
			for i := 0; i < st.NumFields(); i++ {
				if st.Field(i).Name() == x.F {
					ft := st.Field(i).Type()
					addr := fmt.Sprintf("(fld %s %d)", s, c.w.fieldID(el, i))
					return t.loadAt(addr, ft), vtype{c.sortOf(ft), ft}
				}
			}
			t.fail("no field %s in %s", x.F, el)
		}
		if st, ok := vt.gt.Underlying().(*types.Struct); ok {
			sn := c.structSort(vt.gt)
			for i := 0; i < st.NumFields(); i++ {
				if st.Field(i).Name() == x.F {
					ft := st.Field(i).Type()
					return fmt.Sprintf("(%s_%s %s)", sn, mangle(x.F), s), vtype{c.sortOf(ft), ft}
				}
			}
			t.fail("no field %s in %s", x.F, vt.gt)
		}
		t.fail("field %s of non-struct %s (%s)", x.F, vt.gt, x.X.String())
	case *cIndex:
		if addr, gt, ok := t.place(x); ok {
			return t.loadAt(addr, gt), vtype{c.sortOf(gt), gt}
		}
		s, vt := t.expr(x.X)
		i, it := t.expr(x.I)
		if vt.gt != nil {
			switch u := vt.gt.Underlying().(type) {
			case *types.Slice:
				addr := fmt.Sprintf("(selem %s %s)", s, i)
				return t.loadAt(addr, u.Elem()), vtype{c.sortOf(u.Elem()), u.Elem()}
			case *types.Map:
				_, mv, _ := c.mapKeys(vt.gt)
				return fmt.Sprintf("(select (select %s %s) %s)", t.read(mv), s, i), vtype{c.sortOf(u.Elem()), u.Elem()}
			}
		}
		if strings.HasPrefix(vt.sort, "(Array ") {
			_ = it
			es := arrayElemSort(vt.sort)
			return fmt.Sprintf("(select %s %s)", s, i), vtype{es, t.c.goTypeOfSort(es)}
		}
		t.fail("cannot index %s", x.X.String())
	case *cQuant:
		if f, ok := t.expandSmallRange(x); ok {
			return f, vtype{"Bool", nil}
		}
		var bs []string
		nv := map[string]tvar{}
		nb := map[string]bool{}
		for k := range t.bound {
			nb[k] = true
		}
		var guards []string
		var bnames []string
		for _, b := range x.Vars {
			vt := t.resolveType(b.Type)
			name := "q_" + b.Name
			// hygiene: a macro argument may mention a variable of an enclosing quantifier with the same source name;
			// the inner binder must not capture it
			for n := 2; nb[name]; n++ {
				name = fmt.Sprintf("q_%s_%d", b.Name, n)
			}
			bnames = append(bnames, name)
			bs = append(bs, fmt.Sprintf("(%s %s)", name, vt.sort))
			nv[b.Name] = tvar{name, vt}
			nb[name] = true
			// a variable of pointer type ranges over objects: nil is excluded (the address of a field of nil is
			// not meaningful in the model)
			if vt.gt != nil {
				if _, isPtr := vt.gt.Underlying().(*types.Pointer); isPtr {
					guards = append(guards, fmt.Sprintf("(distinct %s nil)", name))
				}
			}
		}
		tt := t.withVars(nv)
		tt.bound = nb
		body := tt.formula(x.Body)
		if len(guards) > 0 {
			if x.Forall {
				body = implies(and(guards...), body)
			} else {
				body = and(append(guards, body)...)
			}
		}
		q := "exists"
		if x.Forall {
			q = "forall"
		}
		if pats := choosePatterns(body, bnames); pats != "" {
			return fmt.Sprintf("(%s (%s) (! %s %s))", q, strings.Join(bs, " "), body, pats), vtype{"Bool", nil}
		}
		return fmt.Sprintf("(%s (%s) %s)", q, strings.Join(bs, " "), body), vtype{"Bool", nil}
	case *cCall:
		return t.call(x)
	}
	t.fail("cannot translate %s", e.String())
	return "", vtype{}
}

// expandSmallRange: `forall k int :: 0 <= k && k < len(E) ==> B` where E is a slice of statically known length
// n <= 4 (the argument list of a variadic call) is translated as B[0] && ... && B[n-1]: E-matching cannot split an
// index variable into cases.
func (t *trans) expandSmallRange(x *cQuant) (string, bool) {
	if !x.Forall || len(x.Vars) != 1 || x.Vars[0].Type != "int" || t.c.constLen == nil {
		return "", false
	}
	k := x.Vars[0].Name
	imp, ok := x.Body.(*cBin)
	if !ok || imp.Op != "==>" {
		return "", false
	}
	rng, ok := imp.X.(*cBin)
	if !ok || rng.Op != "&&" {
		return "", false
	}
	lo, ok1 := rng.X.(*cBin)
	hi, ok2 := rng.Y.(*cBin)
	if !ok1 || !ok2 || lo.Op != "<=" || hi.Op != "<" {
		return "", false
	}
	if z, ok := lo.X.(*cInt); !ok || z.V != "0" {
		return "", false
	}
	if id, ok := lo.Y.(*cIdent); !ok || id.Name != k {
		return "", false
	}
	if id, ok := hi.X.(*cIdent); !ok || id.Name != k {
		return "", false
	}
	ln, ok := hi.Y.(*cCall)
	if !ok || ln.Fn != "len" || len(ln.Args) != 1 {
		return "", false
	}
	arg, isId := ln.Args[0].(*cIdent)
	if !isId {
		return "", false
	}
	v, bound := t.vars[arg.Name]
	if !bound {
		return "", false
	}
	n, known := t.c.constLen[v.term]
	if !known {
		return "", false
	}
	var parts []string
	for i := 0; i < n; i++ {
		tt := t.withVars(map[string]tvar{k: {fmt.Sprint(i), vtype{"Int", types.Typ[types.Int]}}})
		parts = append(parts, tt.formula(imp.Y))
	}
	return and(parts...), true
}

func arrayElemSort(s string) string {
	// "(Array K V)" -> V (K is a simple sort in our uses)
	in := strings.TrimSuffix(strings.TrimPrefix(s, "(Array "), ")")
	// split first token (may be parenthesised)
	depth := 0
	for i := 0; i < len(in); i++ {
		switch in[i] {
		case '(':
			depth++
		case ')':
			depth--
		case ' ':
			if depth == 0 {
				return strings.TrimSpace(in[i+1:])
			}
		}
	}
	return in
}

func arrayKeySort(s string) string {
	in := strings.TrimSuffix(strings.TrimPrefix(s, "(Array "), ")")
	depth := 0
	for i := 0; i < len(in); i++ {
		switch in[i] {
		case '(':
			depth++
		case ')':
			depth--
		case ' ':
			if depth == 0 {
				return strings.TrimSpace(in[:i])
			}
		}
	}
	return in
}

func constTerm(cn *types.Const) string {
	v := cn.Val()
	if b, ok := cn.Type().Underlying().(*types.Basic); ok {
		switch {
		case b.Info()&types.IsInteger != 0:
			s := v.ExactString()
			if strings.HasPrefix(s, "-") {
				return "(- " + s[1:] + ")"
			}
			return s
		case b.Info()&types.IsString != 0:
			return smtString(strings.Trim(v.ExactString(), "\""))
		case b.Info()&types.IsBoolean != 0:
			return v.ExactString()
		}
	}
	return v.ExactString()
}

func (t *trans) loadAt(addr string, ft types.Type) string {
	// record reads for footprint collection
	if t.reads != nil {
		for _, lf := range t.c.leaves(ft) {
			for _, alt := range t.c.leafKeys(addrPath(addr, lf.fids), lf.typ) {
				t.reads[alt.key] = true
			}
		}
	}
	return t.c.loadAt(t.cur, addr, ft)
}

func (t *trans) namedStruct(name string) types.Type {
	gt := t.goType(name)
	if gt == nil {
		return nil
	}
	return gt
}

func (t *trans) call(x *cCall) (string, vtype) {
	c := t.c
	boolT := vtype{"Bool", nil}
	intT := vtype{"Int", types.Typ[types.Int]}
	arg := func(i int) (string, vtype) {
		if i >= len(x.Args) {
			t.fail("%s: missing argument %d", x.Fn, i)
		}
		return t.expr(x.Args[i])
	}
	typeArg := func(i int) types.Type {
		name := ""
		switch a := x.Args[i].(type) {
		case *cIdent:
			name = a.Name
		case *cField:
			if q, ok := a.X.(*cIdent); ok {
				name = q.Name + "." + a.F
			}
		}
		if name == "" {
			t.fail("%s: argument %d must be a type name", x.Fn, i)
		}
		gt := t.goType(name)
		if gt == nil {
			t.fail("%s: unknown type %s", x.Fn, name)
		}
		return gt
	}
	switch x.Fn {
	case "old":
		if t.old == nil {
			t.fail("old() outside a two-state context")
		}
		n := *t
		n.cur = t.old
		return n.expr(x.Args[0])
	case "is":
		s, _ := arg(0)
		gt := typeArg(1)
		return fmt.Sprintf("(and (distinct %s nil) (= (tyof %s) %d))", s, s, c.w.typeID(gt)), boolT
	case "tag":
		s, _ := arg(0)
		return "(tyof " + s + ")", intT
	case "typeid":
		return fmt.Sprintf("%d", c.w.typeID(typeArg(0))), intT
	case "len":
		s, vt := arg(0)
		if vt.sort == "Slice" {
			return "(slen " + s + ")", intT
		}
		if vt.sort == "String" {
			return "(str.len " + s + ")", intT
		}
		if vt.gt != nil {
			if _, ok := vt.gt.Underlying().(*types.Map); ok {
				_, _, mc := c.mapKeys(vt.gt)
				t.cardFacts(vt.gt, s)
				return fmt.Sprintf("(ite (= %s nil) 0 (select %s %s))", s, t.read(mc), s), intT
			}
		}
		t.fail("len of %s", x.Args[0].String())
	case "has":
		s, vt := arg(0)
		k, _ := arg(1)
		if vt.gt != nil {
			if _, ok := vt.gt.Underlying().(*types.Map); ok {
				md, _, _ := c.mapKeys(vt.gt)
				return fmt.Sprintf("(and (distinct %s nil) (select (select %s %s) %s))", s, t.read(md), s, k), boolT
			}
		}
		if strings.HasPrefix(vt.sort, "(Array ") {
			return fmt.Sprintf("(select %s %s)", s, k), boolT
		}
		t.fail("has() on non-map %s", x.Args[0].String())
	case "dom":
		s, vt := arg(0)
		if vt.gt != nil {
			if mt, ok := vt.gt.Underlying().(*types.Map); ok {
				md, _, _ := c.mapKeys(vt.gt)
				ks := c.sortOf(mt.Key())
				return fmt.Sprintf("(ite (= %s nil) ((as const (Array %s Bool)) false) (select %s %s))", s, ks, t.read(md), s), vtype{fmt.Sprintf("(Array %s Bool)", ks), nil}
			}
		}
		t.fail("dom() on non-map")
	case "vals":
		s, vt := arg(0)
		if vt.gt != nil {
			if mt, ok := vt.gt.Underlying().(*types.Map); ok {
				_, mv, _ := c.mapKeys(vt.gt)
				return fmt.Sprintf("(select %s %s)", t.read(mv), s), vtype{fmt.Sprintf("(Array %s %s)", c.sortOf(mt.Key()), c.sortOf(mt.Elem())), mapValsType{mt}}
			}
		}
		t.fail("vals() on non-map")
	case "mk":
		gt := typeArg(0)
		st, ok := gt.Underlying().(*types.Struct)
		if !ok || st.NumFields() != len(x.Args)-1 {
			t.fail("mk(%s, ...): needs one argument per field", x.Args[0].String())
		}
		var fs []string
		for i := 1; i < len(x.Args); i++ {
			a, at := arg(i)
			if at.sort != c.sortOf(st.Field(i-1).Type()) {
				t.fail("mk: field %s has sort %s, got %s", st.Field(i-1).Name(), c.sortOf(st.Field(i-1).Type()), at.sort)
			}
			fs = append(fs, a)
		}
		sn := c.structSort(gt)
		if len(fs) == 0 {
			return "mk_" + sn, vtype{sn, gt}
		}
		return fmt.Sprintf("(mk_%s %s)", sn, strings.Join(fs, " ")), vtype{sn, gt}
	case "zeroArr": // zeroArr(K, V): the array mapping every key to V's zero value
		kt := t.resolveType(x.Args[0].(*cIdent).Name)
		vt := t.resolveType(x.Args[1].(*cIdent).Name)
		if vt.gt == nil {
			t.fail("zeroArr: value type must be a Go type")
		}
		srt := fmt.Sprintf("(Array %s %s)", kt.sort, vt.sort)
		return fmt.Sprintf("((as const %s) %s)", srt, c.zero(vt.gt)), vtype{srt, nil}
	case "store":
		a, vt := arg(0)
		k, _ := arg(1)
		v, _ := arg(2)
		return fmt.Sprintf("(store %s %s %s)", a, k, v), vt
	case "ite":
		cnd := t.formula(x.Args[0])
		a, at := arg(1)
		b, _ := arg(2)
		return fmt.Sprintf("(ite %s %s %s)", cnd, a, b), at
	case "add": // set insert
		s, vt := arg(0)
		k, _ := arg(1)
		return fmt.Sprintf("(store %s %s true)", s, k), vt
	case "remove":
		s, vt := arg(0)
		k, _ := arg(1)
		return fmt.Sprintf("(store %s %s false)", s, k), vt
	case "subset":
		a, vt := arg(0)
		b, _ := arg(1)
		ks := arrayKeySort(vt.sort)
		return fmt.Sprintf("(forall ((sk!x %s)) (=> (select %s sk!x) (select %s sk!x)))", ks, a, b), boolT
	case "seteq":
		a, _ := arg(0)
		b, _ := arg(1)
		return fmt.Sprintf("(= %s %s)", a, b), boolT
	case "born":
		s, _ := arg(0)
		return "(born " + s + ")", intT
	case "backing": // backing(s): the object holding the elements of the slice s
		s, vt := arg(0)
		if vt.sort != "Slice" {
			t.fail("backing() of a non-slice")
		}
		return "(sdata " + s + ")", vtype{"Ref", nil}
	case "fresh": // allocated during the call: born >= old allocation counter
		s, _ := arg(0)
		if t.old == nil {
			t.fail("fresh() outside a two-state context")
		}
		return fmt.Sprintf("(and (distinct %s nil) (>= (born %s) %s))", s, s, t.old.alloc), boolT
	case "allocCounter": // the allocation counter of the current state (objects allocated so far have born < allocCounter())
		return t.cur.alloc, intT
	case "allocated":
		s, _ := arg(0)
		return fmt.Sprintf("(< (born %s) %s)", s, t.cur.alloc), boolT
	case "addr": // addr(p, Struct, field): the address of a field
		s, _ := arg(0)
		gt := typeArg(1)
		fn := x.Args[2].(*cIdent).Name
		st := gt.Underlying().(*types.Struct)
		for i := 0; i < st.NumFields(); i++ {
			if st.Field(i).Name() == fn {
				return fmt.Sprintf("(fld %s %d)", s, c.w.fieldID(gt, i)), vtype{"Ref", nil}
			}
		}
		t.fail("addr: no field %s", fn)
	case "deref": // deref(p) for p a pointer to a leaf or struct
		s, vt := arg(0)
		el := ptrElem(vt.gt)
		if el == nil {
			t.fail("deref of non-pointer")
		}
		return t.loadAt(s, el), vtype{c.sortOf(el), el}
	case "code": // code point of a one-character string
		a, _ := arg(0)
		return fmt.Sprintf("(str.to_code %s)", a), intT
	case "chr":
		a, _ := arg(0)
		return fmt.Sprintf("(str.from_code %s)", a), vtype{"String", types.Typ[types.String]}
	case "str_contains":
		a, _ := arg(0)
		b, _ := arg(1)
		return fmt.Sprintf("(str.contains %s %s)", a, b), boolT
	case "str_indexof":
		a, _ := arg(0)
		b, _ := arg(1)
		return fmt.Sprintf("(str.indexof %s %s 0)", a, b), intT
	case "str_suffix":
		a, _ := arg(0)
		b, _ := arg(1)
		return fmt.Sprintf("(str.suffixof %s %s)", a, b), boolT
	case "isElem": // the address is that of a slice/array element (as opposed to a struct field or a whole object)
		a, _ := arg(0)
		return fmt.Sprintf("(is_elem %s)", a), boolT
	case "addrof":
		if id, isId := x.Args[0].(*cIdent); isId {
			if v, ok := t.vars[id.Name+"$addr"]; ok {
				return v.term, v.vt
			}
		}
		if a, _, ok := t.place(x.Args[0]); ok {
			return a, vtype{"Ref", nil}
		}
		t.fail("addrof: not an addressable expression")
	case "str_prefix":
		a, _ := arg(0)
		b, _ := arg(1)
		return fmt.Sprintf("(str.prefixof %s %s)", a, b), boolT
	case "str_at":
		a, _ := arg(0)
		b, _ := arg(1)
		return fmt.Sprintf("(str.at %s %s)", a, b), vtype{"String", types.Typ[types.String]}
	case "str_sub":
		a, _ := arg(0)
		b, _ := arg(1)
		d, _ := arg(2)
		return fmt.Sprintf("(str.substr %s %s %s)", a, b, d), vtype{"String", types.Typ[types.String]}
	}
	// spec function?
	if sd, ok := c.w.db.Specs[x.Fn]; ok {
		return t.specApp(sd, x)
	}
	// cast: TypeName(e)
	if gt := t.goType(x.Fn); gt != nil && len(x.Args) == 1 {
		s, _ := arg(0)
		if _, isStruct := gt.Underlying().(*types.Struct); isStruct {
			gt = types.NewPointer(gt)
		}
		return s, vtype{c.sortOf(gt), gt}
	}
	t.fail("unknown function %q", x.Fn)
	return "", vtype{}
}

// cardFacts adds the facts relating a map's cardinality and its domain at the current state.
func (t *trans) cardFacts(mt types.Type, m string) {
	if len(t.bound) > 0 {
		for b := range t.bound {
			if strings.Contains(m, b) {
				return
			}
		}
	}
	t.c.cardFactsAt(t.cur, mt, m)
}

func (c *smtctx) cardFactsAt(st *state, mt types.Type, m string) {
	md, _, mc := c.mapKeys(mt)
	ks := c.sortOf(mt.Underlying().(*types.Map).Key())
	D := fmt.Sprintf("(select %s %s)", c.heapGet(st, md), m)
	C := fmt.Sprintf("(select %s %s)", c.heapGet(st, mc), m)
	key := "card|" + D + "|" + C
	if c.cardPairs {
		key = "cardpair|" + D + "|" + C
	}
	if c.unfolded[key] {
		return
	}
	c.unfolded[key] = true
	c.assume(fmt.Sprintf("(>= %s 0)", C))
	c.assume(fmt.Sprintf("(forall ((ck!x %s)) (! (=> (select %s ck!x) (>= %s 1)) :pattern ((select %s ck!x))))", ks, D, C, D))
	if c.cardPairs {
		// inside a variant: cardinality is monotone under inclusion of finite sets (a fact of finite-set theory the
		// solvers cannot derive; instantiated only between the map lengths a decreases clause mentions)
		for _, o := range c.cardTerms[ks] {
			c.assume(fmt.Sprintf("(=> (forall ((ck!y %s)) (=> (select %s ck!y) (select %s ck!y))) (<= %s %s))", ks, D, o[0], C, o[1]))
			c.assume(fmt.Sprintf("(=> (forall ((ck!y %s)) (=> (select %s ck!y) (select %s ck!y))) (<= %s %s))", ks, o[0], D, o[1], C))
		}
		if c.cardTerms == nil {
			c.cardTerms = map[string][][2]string{}
		}
		c.cardTerms[ks] = append(c.cardTerms[ks], [2]string{D, C})
		c.usedAxioms["finite-set fact used in a variant: A subset-of B implies |A| <= |B| (for the domains of the maps whose lengths the decreases clause mentions)"] = true
	}
	// non-empty domain has a witness
	wit := c.freshConst("cardwit", ks)
	c.assume(fmt.Sprintf("(=> (>= %s 1) (select %s %s))", C, D, wit))
}

// ---- spec functions

// specReads computes (once) the heap footprint of every spec function by fixpoint.
func (w *world) specFootprints() map[string][]string {
	if w.db == nil {
		return nil
	}
	reads := map[string]map[string]bool{}
	for n := range w.db.Specs {
		reads[n] = map[string]bool{}
	}
	calls := map[string]map[string]bool{}
	sorts := map[string]string{}
	for _, n := range sortedKeys(w.db.Specs) {
		sd := w.db.Specs[n]
		calls[n] = map[string]bool{}
		if sd.Body == nil && sd.Where == nil {
			continue
		}
		c := newSMT(w)
		t := &trans{c: c, pkg: sd.Pkg, vars: map[string]tvar{}, cur: &state{heap: map[string]string{}, alloc: "A", base: map[string]heapBase{}}, reads: map[string]bool{}, inSpec: "@footprint"}
		t.old = t.cur
		func() {
			defer func() {
				if r := recover(); r != nil {
					if te, ok := r.(transError); ok {
						panic(fmt.Sprintf("%s:%d: spec %s: %s", sd.File, sd.Line, sd.Name, string(te)))
					}
					panic(r)
				}
			}()
			for _, p := range sd.Params {
				t.vars[p.Name] = tvar{"sp_" + p.Name, t.resolveType(p.Type)}
			}
			if sd.Body != nil {
				collectCalls(sd.Body, w.db, calls[n])
				t.expr(sd.Body)
			}
			if sd.Where != nil {
				st := &trans{c: c, pkg: sd.Pkg}
				t.vars["result"] = tvar{"sp_result", st.resolveType(sd.Ret)}
				collectCalls(sd.Where, w.db, calls[n])
				t.expr(sd.Where)
			}
		}()
		for k := range t.reads {
			reads[n][k] = true
			sorts[k] = c.heapSorts[k]
		}
	}
	for changed := true; changed; {
		changed = false
		for n := range reads {
			for cal := range calls[n] {
				for k := range reads[cal] {
					if !reads[n][k] {
						reads[n][k] = true
						changed = true
					}
				}
			}
		}
	}
	out := map[string][]string{}
	for n, r := range reads {
		out[n] = sortedKeys(r)
	}
	w.specHeapSorts = sorts
	return out
}

func collectCalls(e cExpr, db *contractDB, out map[string]bool) {
	switch x := e.(type) {
	case *cUn:
		collectCalls(x.X, db, out)
	case *cBin:
		collectCalls(x.X, db, out)
		collectCalls(x.Y, db, out)
	case *cField:
		collectCalls(x.X, db, out)
	case *cIndex:
		collectCalls(x.X, db, out)
		collectCalls(x.I, db, out)
	case *cQuant:
		collectCalls(x.Body, db, out)
	case *cCall:
		if _, ok := db.Specs[x.Fn]; ok {
			out[x.Fn] = true
		}
		for _, a := range x.Args {
			collectCalls(a, db, out)
		}
	}
}

func (t *trans) specApp(sd *specDef, x *cCall) (string, vtype) {
	c := t.c
	if len(x.Args) != len(sd.Params) {
		t.fail("spec %s expects %d arguments", sd.Name, len(sd.Params))
	}
	st := &trans{c: c, pkg: sd.Pkg}
	ret := st.resolveType(sd.Ret)
	var args, argSorts []string
	if t.inSpec == "@footprint" {
		// only evaluate arguments for their reads
		for _, a := range x.Args {
			t.expr(a)
		}
		return "spec!", ret
	}
	fp := c.w.specReads[sd.Name]
	for _, k := range fp {
		if _, ok := c.heapSorts[k]; !ok {
			c.heapSorts[k] = c.w.specHeapSorts[k]
		}
		args = append(args, t.read(k))
		argSorts = append(argSorts, c.heapSorts[k])
	}
	var plain []string
	for i, a := range x.Args {
		s, vt := t.expr(a)
		pt := st.resolveType(sd.Params[i].Type)
		if vt.sort != pt.sort {
			t.fail("spec %s: argument %d has sort %s, expected %s", sd.Name, i, vt.sort, pt.sort)
		}
		args = append(args, s)
		plain = append(plain, s)
		argSorts = append(argSorts, pt.sort)
	}
	c.usedSpecs[sd.Name] = true
	if !sd.Macro && sd.Body != nil && !t.noBase {
		if alt, ok := t.baseApp(sd, fp, plain, x, ret); ok {
			return alt, ret
		}
	}
	if sd.Macro {
		if t.macroDepth > 8 {
			t.fail("macro %s: expansion too deep (recursive?)", sd.Name)
		}
		bt := &trans{c: c, pkg: sd.Pkg, vars: map[string]tvar{}, cur: t.cur, old: t.old, depth: t.depth, bound: t.bound, reads: t.reads, macroDepth: t.macroDepth + 1}
		for i, p := range sd.Params {
			bt.vars[p.Name] = tvar{plain[i], st.resolveType(p.Type)}
		}
		return bt.expr(sd.Body)
	}
	sym := "spec_" + sd.Name
	c.declFun(sym, argSorts, ret.sort)
	app := sym
	if len(args) > 0 {
		app = "(" + sym + " " + strings.Join(args, " ") + ")"
	}
	if sd.Where != nil && t.inSpec != "@where" && !c.unfolded["where|"+app] {
		mentionsBound := false
		for b := range t.bound {
			for _, a := range args {
				if strings.Contains(a, b) {
					mentionsBound = true
				}
			}
		}
		if !mentionsBound {
			c.unfolded["where|"+app] = true
			c.usedAxioms["definitional axiom: spec "+sd.Name+" is characterised by its 'where' clause (existence and uniqueness argued in the contract file)"] = true
			bt := &trans{c: c, pkg: sd.Pkg, vars: map[string]tvar{}, cur: t.cur, old: t.old, depth: 0, inSpec: "@where"}
			for i, p := range sd.Params {
				bt.vars[p.Name] = tvar{plain[i], st.resolveType(p.Type)}
			}
			bt.vars["result"] = tvar{app, ret}
			c.assume(bt.formula(sd.Where))
		}
	}
	// unfold the definition for this instance (one level per unit of budget), unless it mentions bound variables
	if sd.Body != nil && t.depth > 0 && !c.unfolded[app] {
		mentionsBound := false
		for b := range t.bound {
			for _, a := range args {
				if strings.Contains(a, b) {
					mentionsBound = true
				}
			}
		}
		if !mentionsBound {
			c.unfolded[app] = true
			bt := &trans{c: c, pkg: sd.Pkg, vars: map[string]tvar{}, cur: t.cur, old: t.old, depth: t.depth - 1}
			for i, p := range sd.Params {
				bt.vars[p.Name] = tvar{plain[i], st.resolveType(p.Type)}
			}
			body, bvt := bt.expr(sd.Body)
			if bvt.sort != ret.sort {
				t.fail("spec %s: body has sort %s, declared %s", sd.Name, bvt.sort, ret.sort)
			}
			if ret.sort == "Bool" && (strings.Contains(body, "(forall ") || strings.Contains(body, "(exists ")) {
				// two implications instead of an equivalence: every quantifier then has a definite polarity
				// and can be skolemised / instantiated by E-matching instead of falling back to MBQI
				c.assume(fmt.Sprintf("(=> %s %s)", app, body))
				c.assume(fmt.Sprintf("(=> %s %s)", body, app))
			} else {
				c.assume(fmt.Sprintf("(= %s %s)", app, body))
			}
		}
	}
	return app, ret
}

// place computes the address of an addressable expression (slice element, field through a pointer or of
// another place) so that only the needed cells are read.
func (t *trans) place(e cExpr) (addr string, gt types.Type, ok bool) {
	c := t.c
	switch x := e.(type) {
	case *cIndex:
		// only slices are addressable
		s, vt := t.expr(x.X)
		if vt.gt == nil {
			return "", nil, false
		}
		sl, isSl := vt.gt.Underlying().(*types.Slice)
		if !isSl {
			return "", nil, false
		}
		i, _ := t.expr(x.I)
		return fmt.Sprintf("(selem %s %s)", s, i), sl.Elem(), true
	case *cField:
		var base string
		var st types.Type
		if a, g, ok := t.place(x.X); ok {
			if el := ptrElem(g); el != nil {
				// the place holds a pointer: load it, then take the field
				base, st = t.loadAt(a, g), el
			} else {
				base, st = a, g
			}
		} else {
			s, vt := t.expr(x.X)
			el := ptrElem(vt.gt)
			if el == nil {
				return "", nil, false
			}
			base, st = s, el
		}
		stt, isStruct := st.Underlying().(*types.Struct)
		if !isStruct {
			return "", nil, false
		}
		for i := 0; i < stt.NumFields(); i++ {
			if stt.Field(i).Name() == x.F {
				return fmt.Sprintf("(fld %s %d)", base, c.w.fieldID(st, i)), stt.Field(i).Type(), true
			}
		}
		t.fail("no field %s in %s", x.F, st)
	}
	return "", nil, false
}

// mapValsType marks the Go type of vals(m); only its element type is used.
type mapValsType struct{ *types.Map }

// goTypeOfSort recovers the Go struct type of a struct sort (for field access on array elements).
func (c *smtctx) goTypeOfSort(sort string) types.Type {
	if c.sortTypes == nil {
		return nil
	}
	return c.sortTypes[sort]
}

// baseApp: if some heap arrays in the footprint of a spec application differ from an earlier version only inside
// local objects that have not escaped, the application over the *earlier* version is used instead, justified by
// the lemma  "no argument lies in those objects  ==>  f(H_now, args) = f(H_base, args)"  (a spec function reads
// only cells reachable from its arguments; an unescaped object is reachable only from registers). The guard is
// emitted as an obligation-free assumption of the form (=> guard (= now base)); the base application is the
// one that is unfolded.
func (t *trans) baseApp(sd *specDef, fp []string, plain []string, x *cCall, ret vtype) (string, bool) {
	c := t.c
	var objs []baseObj
	changed := false
	baseArgs := make([]string, 0, len(fp)+len(plain))
	nowArgs := make([]string, 0, len(fp)+len(plain))
	var sorts []string
	for _, k := range fp {
		now := t.read(k)
		nowArgs = append(nowArgs, now)
		sorts = append(sorts, c.heapSorts[k])
		if b, ok := t.cur.base[k]; ok && b.term != now {
			baseArgs = append(baseArgs, b.term)
			objs = append(objs, b.objs...)
			changed = true
		} else {
			baseArgs = append(baseArgs, now)
		}
	}
	if os.Getenv("GRITSVC_DEBUG_BASE") != "" {
		fmt.Fprintf(os.Stderr, "baseApp %s changed=%v objs=%d base-keys=%d\n", sd.Name, changed, len(objs), len(t.cur.base))
	}
	if !changed {
		return "", false
	}
	st := &trans{c: c, pkg: sd.Pkg}
	var guards []string
	for i, a := range plain {
		pt := st.resolveType(sd.Params[i].Type)
		sorts = append(sorts, pt.sort)
		switch pt.sort {
		case "Ref":
			for _, o := range objs {
				if o.escaped {
					if c.typeReaches(pt.gt, o.typ, o.backing) {
						return "", false
					}
					continue
				}
				if c.mayPointInto(pt.gt, o.typ) {
					guards = append(guards, fmt.Sprintf("(distinct (born %s) %s)", a, o.term))
				}
			}
		case "Slice":
			for _, o := range objs {
				if o.escaped {
					if c.typeReaches(pt.gt, o.typ, o.backing) {
						return "", false
					}
					continue
				}
				if c.mayPointInto(pt.gt, o.typ) {
					guards = append(guards, fmt.Sprintf("(distinct (born (sdata %s)) %s)", a, o.term))
				}
			}
		case "Int", "Bool", "String":
		default:
			if strings.HasPrefix(pt.sort, "(Array ") && !strings.Contains(pt.sort, "Ref") && !strings.Contains(pt.sort, "S_") {
				continue
			}
			return "", false // a struct/array argument may carry references: no lemma
		}
	}
	sym := "spec_" + sd.Name
	c.declFun(sym, sorts, ret.sort)
	nowApp := "(" + sym + " " + strings.Join(append(nowArgs, plain...), " ") + ")"
	baseT := *t
	cur := t.cur.clone()
	for i, k := range fp {
		cur.heap[k] = baseArgs[i]
		delete(cur.base, k)
	}
	baseT.cur = cur
	baseAppTerm, _ := baseT.specAppRaw(sd, x, plain)
	g := and(guards...)
	if g == "true" {
		return baseAppTerm, true
	}
	c.needWF = true // the guards compare allocation times of heap values
	// by the lemma the two applications are equal whenever the guard holds, so the conditional below is
	// equivalent to the application over the current heap (which is unfolded as well: the guard may fail)
	nowT := *t
	nowT.noBase = true
	nowApp, _ = nowT.specAppRaw(sd, x, plain)
	return fmt.Sprintf("(ite %s %s %s)", g, baseAppTerm, nowApp), true
}

// specAppRaw builds (and unfolds) the application of sd to already translated arguments in t.cur.
func (t *trans) specAppRaw(sd *specDef, x *cCall, plain []string) (string, vtype) {
	st := &trans{c: t.c, pkg: sd.Pkg}
	nt := *t
	nt.vars = map[string]tvar{}
	args := make([]cExpr, len(plain))
	for i, p := range plain {
		name := fmt.Sprintf("raw$%d", i)
		nt.vars[name] = tvar{p, st.resolveType(sd.Params[i].Type)}
		args[i] = &cIdent{name}
	}
	return nt.specApp(sd, &cCall{Fn: x.Fn, Args: args})
}

// mayPointInto: can a value of static Go type argT be (or point into) an object allocated with type objT?
// By Go's type safety a *X can only point to a variable of type X, so the question is whether one of the
// possible pointee types of argT occurs as a by-value component of objT.
func (c *smtctx) mayPointInto(argT, objT types.Type) bool {
	if argT == nil || objT == nil {
		return true
	}
	comps := map[string]bool{}
	var rec func(t types.Type)
	rec = func(t types.Type) {
		k := types.TypeString(t, nil)
		if comps[k] {
			return
		}
		comps[k] = true
		switch u := t.Underlying().(type) {
		case *types.Struct:
			for i := 0; i < u.NumFields(); i++ {
				rec(u.Field(i).Type())
			}
		case *types.Array:
			rec(u.Elem())
		}
	}
	rec(objT)
	var pointees []types.Type
	switch u := argT.Underlying().(type) {
	case *types.Pointer:
		pointees = append(pointees, u.Elem())
	case *types.Interface:
		if named, ok := argT.(*types.Named); ok && named.Obj().Pkg() != nil {
			key := named.Obj().Pkg().Path() + "." + named.Obj().Name()
			impls, known := c.w.impls[key]
			if !known || !c.w.inModule(named.Obj().Pkg().Path()) {
				return true
			}
			for _, im := range impls {
				pointees = append(pointees, im)
			}
		} else {
			return true
		}
	case *types.Slice:
		pointees = append(pointees, u.Elem())
	case *types.Map, *types.Chan, *types.Signature:
		return false
	default:
		return true
	}
	for _, p := range pointees {
		if comps[types.TypeString(p, nil)] {
			return true
		}
	}
	return false
}

// typeReaches: can a value of static type argT reach, by following pointers, interfaces, slices, maps and channels
// any number of times, a pointer into an object allocated with type objT? Decided on types alone (Go's type safety:
// a *X or an interface holding a *X can only point to a variable of type X, which lies inside an objT object only if
// X is a by-value component of objT; a slice can only point into an array, i.e. into a backing store whose element
// type is its own). Interfaces from outside the module, function values and unsafe pointers count as reaching
// everything.
func (c *smtctx) typeReaches(argT, objT types.Type, backing bool) bool {
	if argT == nil || objT == nil {
		return true
	}
	key := types.TypeString(argT, nil) + " => " + types.TypeString(objT, nil) + fmt.Sprint(backing)
	if c.w.reachCache == nil {
		c.w.reachCache = map[string]bool{}
	}
	if r, ok := c.w.reachCache[key]; ok {
		return r
	}
	comps := map[string]bool{}
	arrays := map[string]bool{} // element types of arrays held by value
	var rec func(t types.Type)
	rec = func(t types.Type) {
		k := types.TypeString(t, nil)
		if comps[k] {
			return
		}
		comps[k] = true
		switch u := t.Underlying().(type) {
		case *types.Struct:
			for i := 0; i < u.NumFields(); i++ {
				rec(u.Field(i).Type())
			}
		case *types.Array:
			arrays[types.TypeString(u.Elem(), nil)] = true
			rec(u.Elem())
		}
	}
	rec(objT)
	objKey := types.TypeString(objT, nil)
	seen := map[string]bool{}
	reaches := false
	var walk func(t types.Type)
	walk = func(t types.Type) {
		if reaches || t == nil {
			return
		}
		k := types.TypeString(t, nil)
		if seen[k] {
			return
		}
		seen[k] = true
		switch u := t.Underlying().(type) {
		case *types.Basic:
			if u.Kind() == types.UnsafePointer {
				reaches = true
			}
		case *types.Pointer:
			if comps[types.TypeString(u.Elem(), nil)] {
				reaches = true
				return
			}
			walk(u.Elem())
		case *types.Interface:
			named, ok := t.(*types.Named)
			if !ok || named.Obj().Pkg() == nil || !c.w.inModule(named.Obj().Pkg().Path()) {
				if ok && named.Obj().Pkg() == nil && named.Obj().Name() == "error" {
					return // error values are built by fmt/errors: they hold no pointers into module objects
				}
				reaches = true
				return
			}
			impls, known := c.w.impls[named.Obj().Pkg().Path()+"."+named.Obj().Name()]
			if !known {
				reaches = true
				return
			}
			for _, im := range impls {
				if comps[types.TypeString(im, nil)] {
					reaches = true
					return
				}
				walk(im)
			}
		case *types.Slice:
			ek := types.TypeString(u.Elem(), nil)
			if (backing && ek == objKey) || arrays[ek] {
				reaches = true
				return
			}
			walk(u.Elem())
		case *types.Array:
			walk(u.Elem())
		case *types.Map:
			walk(u.Key())
			walk(u.Elem())
		case *types.Chan:
			walk(u.Elem())
		case *types.Struct:
			for i := 0; i < u.NumFields(); i++ {
				walk(u.Field(i).Type())
			}
		case *types.Signature:
			reaches = true
		}
	}
	walk(argT)
	if os.Getenv("GRITSVC_DEBUG_REACH") != "" {
		fmt.Fprintf(os.Stderr, "typeReaches %s = %v\n", key, reaches)
	}
	c.w.reachCache[key] = reaches
	return reaches
}

// choosePatterns picks E-matching triggers for a quantified formula: heap reads, slice element addresses and
// spec applications that mention the bound variables. Addresses are built from datatype selectors (fld/elem are
// macros), on which the solvers' own trigger inference does badly.
var quantVarRe = regexp.MustCompile(`\b(q_[A-Za-z0-9_]+|fa![a-z]+|sk![a-z]+|wf![a-z]+)\b`)

func choosePatterns(body string, bound []string) string {
	type cand struct {
		term string
		vars map[string]bool
	}
	var cands []cand
	seen := map[string]bool{}
	// enumerate parenthesised subterms
	var stack []int
	for i := 0; i < len(body); i++ {
		switch body[i] {
		case '"':
			j := i + 1
			for j < len(body) && body[j] != '"' {
				j++
			}
			i = j
		case '(':
			stack = append(stack, i)
		case ')':
			if len(stack) == 0 {
				continue
			}
			start := stack[len(stack)-1]
			stack = stack[:len(stack)-1]
			sub := body[start : i+1]
			head := sub[1:]
			if k := strings.IndexAny(head, " )"); k >= 0 {
				head = head[:k]
			}
			if !(head == "select" || head == "selem" || strings.HasPrefix(head, "spec_")) {
				continue
			}
			if strings.Contains(sub, "(forall ") || strings.Contains(sub, "(exists ") || strings.Contains(sub, "(ite ") || strings.Contains(sub, "(store ") {
				continue
			}
			vs := map[string]bool{}
			for _, b := range bound {
				if containsIdent(sub, b) {
					vs[b] = true
				}
			}
			if len(vs) == 0 || seen[sub] {
				continue
			}
			// a trigger must not mention variables bound by an inner quantifier
			inner := false
			for _, m := range quantVarRe.FindAllString(sub, -1) {
				isBound := false
				for _, b := range bound {
					if b == m {
						isBound = true
					}
				}
				if !isBound {
					inner = true
					break
				}
			}
			if inner {
				continue
			}
			seen[sub] = true
			cands = append(cands, cand{sub, vs})
		}
	}
	if len(cands) == 0 {
		return ""
	}
	// drop candidates that contain a smaller candidate with the same variables (keep the innermost reads)
	var keep []cand
	for i, c := range cands {
		inner := false
		for j, d := range cands {
			if i != j && len(d.term) < len(c.term) && strings.Contains(c.term, d.term) && len(d.vars) == len(c.vars) {
				inner = true
			}
		}
		if !inner {
			keep = append(keep, c)
		}
	}
	var pats []string
	for _, c := range keep {
		if len(c.vars) == len(bound) && len(pats) < 4 {
			pats = append(pats, ":pattern ("+c.term+")")
		}
	}
	if len(pats) > 0 {
		return strings.Join(pats, " ")
	}
	// multi-pattern: greedy cover
	covered := map[string]bool{}
	var multi []string
	for len(covered) < len(bound) {
		best := -1
		gain := 0
		for i, c := range keep {
			g := 0
			for v := range c.vars {
				if !covered[v] {
					g++
				}
			}
			if g > gain || (g == gain && g > 0 && best >= 0 && len(c.term) < len(keep[best].term)) {
				best, gain = i, g
			}
		}
		if best < 0 || gain == 0 {
			return ""
		}
		multi = append(multi, keep[best].term)
		for v := range keep[best].vars {
			covered[v] = true
		}
	}
	return ":pattern (" + strings.Join(multi, " ") + ")"
}

func containsIdent(s, id string) bool {
	for i := 0; ; {
		k := strings.Index(s[i:], id)
		if k < 0 {
			return false
		}
		k += i
		end := k + len(id)
		okL := k == 0 || strings.ContainsRune(" ()", rune(s[k-1]))
		okR := end == len(s) || strings.ContainsRune(" ()", rune(s[end]))
		if okL && okR {
			return true
		}
		i = end
	}
}
