package main

import (
	"flag"
	"fmt"
	"os"
	"strconv"
)

func main() {
	if len(os.Args) < 2 {
		fmt.Fprintln(os.Stderr, "usage: gritsvc check -property Cxx [-tier quick|thorough] | list | modset FUNC")
		os.Exit(2)
	}
	switch os.Args[1] {
	case "check":
		fs := flag.NewFlagSet("check", flag.ExitOnError)
		prop := fs.String("property", "", "property id")
		tier := fs.String("tier", "", "quick or thorough")
		repo := fs.String("repo", "/repo", "repository")
		verif := fs.String("verif", "/verif", "verif dir")
		fs.Parse(os.Args[2:])
		if *tier == "" {
			*tier = os.Getenv("VERIF_TIER")
		}
		if *tier == "" {
			*tier = "quick"
		}
		e, err := newEngine(*repo, *verif, *tier, patternsFor(*prop))
		if err != nil {
			fmt.Printf("VIOLATION property=%s replay=%s/replays/%s/engine-error.json no-failing-input-found\n  cannot load: %v\n", *prop, *verif, *prop, err)
			os.MkdirAll(*verif+"/replays/"+*prop, 0o755)
			os.WriteFile(*verif+"/replays/"+*prop+"/engine-error.json", []byte(fmt.Sprintf("{\"error\": %q}\n", err.Error())), 0o644)
			os.Exit(1)
		}
		if s := os.Getenv("VERIF_SEED"); s != "" {
			e.seed, _ = strconv.Atoi(s)
		}
		res := e.check(*prop)
		// the properties this one rests on: their obligations are discharged in the same run and count as its own
		for _, inc := range e.w.db.Includes[*prop] {
			r2 := e.check(inc)
			have := map[string]bool{}
			for _, o := range res.obls {
				have[o.Func+"/"+o.Name] = true
			}
			for _, o := range r2.obls {
				if have[o.Func+"/"+o.Name] {
					continue
				}
				o.Props = []string{*prop}
				o.Via = inc
				res.obls = append(res.obls, o)
			}
			res.funcs = mergeStrings(res.funcs, r2.funcs)
			res.support = mergeStrings(res.support, r2.support)
			res.errors = append(res.errors, r2.errors...)
			res.unsupported = append(res.unsupported, r2.unsupported...)
			for k := range r2.assumptions {
				res.assumptions[k] = true
			}
			for k := range r2.notes {
				res.notes[k] = true
			}
			res.assumptions["the obligations of property "+inc+" (on which "+*prop+" rests) are discharged in this run as well"] = true
			res.lemmas += r2.lemmas
			res.wall += r2.wall
		}
		os.Exit(e.report(res))
	case "modset":
		e, err := newEngine("/repo", "/verif", "quick", patternsFor(""))
		if err != nil {
			fmt.Println(err)
			os.Exit(1)
		}
		for _, n := range sortedKeys(e.w.funcs) {
			if len(os.Args) > 2 && n != os.Args[2] {
				continue
			}
			fmt.Printf("%s: %s\n", n, e.ma.sets[e.w.funcs[n]])
		}
	case "reach":
		e, err := newEngine("/repo", "/verif", "quick", patternsFor(""))
		if err != nil {
			fmt.Println(err)
			os.Exit(1)
		}
		for _, fn := range e.reachable(os.Args[2:]) {
			ct := ""
			if e.w.db.Contracts[fn.String()] != nil {
				ct = "contract"
			}
			if len(e.w.ifaceContractsFor(fn)) > 0 {
				ct += " iface"
			}
			rec := ""
			if e.w.recFuncs[fn] {
				rec = "rec"
			}
			n := 0
			for _, b := range fn.Blocks {
				n += len(b.Instrs)
			}
			fmt.Printf("%-70s %5d %-4s %s\n", fn.String(), n, rec, ct)
		}
	default:
		fmt.Fprintln(os.Stderr, "unknown command")
		os.Exit(2)
	}
}

// patternsFor: the packages a property's functions live in (loading ./cmd drags in the plotting and
// websocket dependencies and costs ~10 s, so it is done only where needed).
func patternsFor(prop string) []string {
	switch prop {
	case "C18", "C19", "C13":
		return []string{"./..."}
	}
	return []string{"./types", "./process", "./parser", "./position"}
}

func mergeStrings(a, b []string) []string {
	seen := map[string]bool{}
	for _, x := range a {
		seen[x] = true
	}
	for _, x := range b {
		if !seen[x] {
			seen[x] = true
			a = append(a, x)
		}
	}
	return a
}
