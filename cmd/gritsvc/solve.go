package main

// Running the SMT solvers: z3 5.1.0 (z3-new) first, then z3 4.8.12 and cvc5 1.0 in parallel.

import (
	"bufio"
	"bytes"
	"context"
	"fmt"
	"os"
	"os/exec"
	"path/filepath"
	"sort"
	"strings"
	"sync"
	"time"
)

type solverRes struct {
	status string // unsat sat unknown timeout error
	out    string
	secs   float64
	solver string
}

func runSolver(name string, script string, timeout time.Duration) solverRes {
	return runSolverCtx(context.Background(), name, script, timeout)
}

func runSolverCtx(parent context.Context, name string, script string, timeout time.Duration) solverRes {
	var cmd *exec.Cmd
	ctx, cancel := context.WithTimeout(parent, timeout+2*time.Second)
	defer cancel()
	secs := int(timeout.Seconds())
	if secs < 1 {
		secs = 1
	}
	input := script
	switch name {
	case "z3-new":
		cmd = exec.CommandContext(ctx, "z3-new", "-in", "-smt2", fmt.Sprintf("-T:%d", secs))
		input = "(set-option :produce-models true)\n" + script
	case "z3":
		cmd = exec.CommandContext(ctx, "z3", "-in", "-smt2", fmt.Sprintf("-T:%d", secs))
		input = "(set-option :produce-models true)\n" + script
	case "cvc5":
		cmd = exec.CommandContext(ctx, "cvc5", "--lang=smt2", fmt.Sprintf("--tlimit=%d", secs*1000), "--produce-models", "--strings-exp")
		input = "(set-logic ALL)\n" + script
	default:
		return solverRes{status: "error", out: "unknown solver " + name, solver: name}
	}
	cmd.Stdin = strings.NewReader(input)
	var out, errb bytes.Buffer
	cmd.Stdout = &out
	cmd.Stderr = &errb
	t0 := time.Now()
	cmd.Run()
	res := solverRes{solver: name, secs: time.Since(t0).Seconds(), out: out.String()}
	first := strings.TrimSpace(strings.SplitN(strings.TrimSpace(out.String()), "\n", 2)[0])
	switch {
	case first == "unsat":
		res.status = "unsat"
	case first == "sat":
		res.status = "sat"
	case first == "unknown":
		res.status = "unknown"
	case parent.Err() != nil:
		res.status = "cancelled"
	case first == "timeout" || ctx.Err() != nil:
		res.status = "timeout"
	default:
		res.status = "error"
		res.out = out.String() + errb.String()
	}
	return res
}

type solveOpts struct {
	timeout  time.Duration
	twoVotes bool // thorough: require two independent unsat answers where possible
	workers  int
	dumpDir  string
}

// decide runs the portfolio on one obligation.
func decide(o *obligation, opts solveOpts) {
	script := o.ctx.scriptMode(o.NAssume, o.Goal, nil, o.ExpectSat)
	o.SizeB = len(script)
	if o.ExpectSat {
		// vacuity probes: a contradiction among the assumptions is found quickly by instantiation or not at all;
		// finding a model of quantified assumptions is often beyond the solvers, and "inconclusive" is tolerated
		if opts.twoVotes && opts.timeout > 10*time.Second {
			opts.timeout = 10 * time.Second
		} else if !opts.twoVotes && opts.timeout > 3*time.Second {
			opts.timeout = 3 * time.Second
		}
	}
	if opts.dumpDir != "" {
		os.MkdirAll(opts.dumpDir, 0o755)
		os.WriteFile(filepath.Join(opts.dumpDir, mangle(o.Name)+".smt2"), []byte(script), 0o644)
	}
	want := "unsat"
	if o.ExpectSat {
		want = "sat"
	}
	t0 := time.Now()
	var all []solverRes
	if !o.ExpectSat && !opts.twoVotes && len(script) > 300000 {
		// sliced attempts first (sound: fewer assumptions); see smtctx.slicedScript
		for _, rounds := range []int{2, 4} {
			if ss, ok := o.ctx.slicedScript(o.NAssume, o.Goal, rounds); ok {
				if opts.dumpDir != "" {
					os.WriteFile(filepath.Join(opts.dumpDir, mangle(o.Name)+fmt.Sprintf(".slice%d.smt2", rounds)), []byte(ss), 0o644)
				}
				sr := runSolver("z3-new", ss, 3*time.Second)
				sr.solver = fmt.Sprintf("z3-new(slice%d)", rounds)
				if sr.status == "unsat" {
					o.Secs = time.Since(t0).Seconds()
					o.Status, o.Solver = "discharged", sr.solver
					o.Output = fmt.Sprintf("%s: unsat (%.2fs)", sr.solver, sr.secs)
					return
				}
			}
		}
	}
	votes := 0
	if !opts.twoVotes && !o.ExpectSat {
		// quick tier: the three solvers race; the first definite answer ends the race. cvc5 decides a handful of frame
		// obligations that z3 does not (it finds the needed equality case split) and needs about the base timeout for
		// them, so it gets a wide margin.
		ctx, cancel := context.WithCancel(context.Background())
		type job struct {
			name string
			to   time.Duration
		}
		jobs := []job{{"z3-new", opts.timeout}, {"cvc5", 3 * opts.timeout}, {"z3", opts.timeout}}
		resCh := make(chan solverRes, len(jobs))
		for _, j := range jobs {
			go func(j job) { resCh <- runSolverCtx(ctx, j.name, script, j.to) }(j)
		}
		for range jobs {
			r := <-resCh
			if r.status == "cancelled" {
				continue
			}
			all = append(all, r)
			if r.status == "unsat" || r.status == "sat" {
				cancel()
			}
		}
		cancel()
	} else {
		r := runSolver("z3-new", script, opts.timeout)
		all = append(all, r)
		if r.status == want {
			votes++
		}
		needMore := r.status != "unsat" && r.status != "sat"
		if o.ExpectSat && !opts.twoVotes {
			needMore = false
		}
		if opts.twoVotes && r.status == want && !o.ExpectSat {
			needMore = true
		}
		if needMore {
			var wg sync.WaitGroup
			rs := make([]solverRes, 2)
			for i, s := range []string{"z3", "cvc5"} {
				wg.Add(1)
				go func(i int, s string) {
					defer wg.Done()
					rs[i] = runSolver(s, script, opts.timeout)
				}(i, s)
			}
			wg.Wait()
			all = append(all, rs...)
			for _, x := range rs {
				if x.status == want {
					votes++
				}
			}
		}
	}
	o.Secs = time.Since(t0).Seconds()
	// classify
	var unsat, sat *solverRes
	for i := range all {
		if all[i].status == "unsat" && unsat == nil {
			unsat = &all[i]
		}
		if all[i].status == "sat" && sat == nil {
			sat = &all[i]
		}
	}
	var outs []string
	for _, x := range all {
		outs = append(outs, fmt.Sprintf("%s: %s (%.2fs)", x.solver, x.status, x.secs))
	}
	o.Output = strings.Join(outs, "; ")
	switch {
	case unsat != nil && sat != nil:
		o.Status = "disagreement"
		o.Solver = unsat.solver + "/" + sat.solver
	case o.ExpectSat && sat != nil:
		o.Status, o.Solver = "discharged", sat.solver
	case o.ExpectSat && unsat != nil:
		o.Status, o.Solver = "vacuous", unsat.solver
	case o.ExpectSat:
		o.Status = "inconclusive"
	case unsat != nil:
		o.Status, o.Solver = "discharged", unsat.solver
		if opts.twoVotes && votes < 2 {
			o.Output += "; second vote missing"
		}
	case sat != nil:
		o.Status, o.Solver = "refuted", sat.solver
	default:
		o.Status = "unknown"
	}
}

// modelFor re-runs a refuted obligation asking for the values of its input terms.
func modelFor(o *obligation, terms []string, timeout time.Duration) string {
	if len(terms) == 0 {
		return ""
	}
	script := o.ctx.script(o.NAssume, o.Goal, terms)
	for _, s := range []string{"z3-new", "z3"} {
		r := runSolver(s, script, timeout)
		if r.status == "sat" {
			lines := strings.SplitN(r.out, "\n", 2)
			if len(lines) == 2 {
				return strings.TrimSpace(lines[1])
			}
		}
	}
	return ""
}

// decideWithSplit: if the plain query is inconclusive and the obligation has a case split, every case is tried
// separately; the obligation is discharged when all cases are.
func decideWithSplit(o *obligation, opts solveOpts) {
	decide(o, opts)
	if o.Status != "unknown" || len(o.Splits) < 2 || o.ExpectSat {
		return
	}
	total := o.Secs
	var outs []string
	all := true
	for i, sc := range o.Splits {
		sub := *o
		sub.Goal = and(o.Goal, sc)
		sub.Splits = nil
		decide(&sub, opts)
		total += sub.Secs
		outs = append(outs, fmt.Sprintf("case %d: %s [%s]", i+1, sub.Status, sub.Output))
		if sub.Status != "discharged" {
			all = false
			if sub.Status == "refuted" {
				o.Status = "refuted"
				o.Goal = sub.Goal
				o.Solver = sub.Solver
			}
		}
	}
	o.Secs = total
	o.Output += "; case split over the nearest join: " + strings.Join(outs, "; ")
	if all {
		o.Status = "discharged"
		o.Solver = "z3-new(split)"
	}
}

func solveAll(obls []*obligation, opts solveOpts) {
	if opts.workers <= 0 {
		opts.workers = 8
	}
	ch := make(chan *obligation)
	var wg sync.WaitGroup
	for i := 0; i < opts.workers; i++ {
		wg.Add(1)
		go func() {
			defer wg.Done()
			for o := range ch {
				decideWithSplit(o, opts)
			}
		}()
	}
	for _, o := range obls {
		ch <- o
	}
	close(ch)
	wg.Wait()
}

// ---- incremental first pass -------------------------------------------------------------------------------------
//
// The obligations of one function share their assumptions (an obligation created later sees a longer prefix of the
// same list). Sending the whole prefix to a fresh solver process for every obligation costs more time in parsing
// than in solving, so the quick tier first walks each function's obligations in one z3 process: assumptions are
// asserted as the walk reaches them, every goal is checked between push and pop under a soft per-query timeout.
// Only `unsat` answers are taken from this pass; everything else (sat, unknown, timeout, a solver that dies) goes
// to the portfolio of fresh processes as before, which also produces the models and the second opinions.

type incJob struct {
	ctx  *smtctx
	obls []*obligation // ascending NAssume, none ExpectSat
}

func (c *smtctx) incPrelude() string {
	var sb strings.Builder
	sb.WriteString(preludeFixed)
	for _, d := range c.sortDecls {
		sb.WriteString(d)
		sb.WriteString("\n")
	}
	for _, d := range c.decls {
		sb.WriteString(d)
		sb.WriteString("\n")
	}
	if c.needWF {
		for _, a := range c.wfAxioms {
			sb.WriteString("(assert " + a + ")\n")
		}
	}
	return sb.String()
}

func runIncremental(job incJob, opts solveOpts) {
	c := job.ctx
	perQuery := opts.timeout
	if perQuery > 4*time.Second {
		perQuery = 4 * time.Second
	}
	budget := time.Duration(len(job.obls))*perQuery + 20*time.Second
	ctx, cancel := context.WithTimeout(context.Background(), budget)
	defer cancel()
	cmd := exec.CommandContext(ctx, "z3-new", "-in", "-smt2", fmt.Sprintf("-t:%d", perQuery.Milliseconds()))
	stdin, err := cmd.StdinPipe()
	if err != nil {
		return
	}
	stdout, err := cmd.StdoutPipe()
	if err != nil {
		return
	}
	if err := cmd.Start(); err != nil {
		return
	}
	defer func() {
		stdin.Close()
		cmd.Process.Kill()
		cmd.Wait()
	}()
	type answer struct {
		idx   int
		lines []string
	}
	answers := make(chan answer, len(job.obls))
	go func() {
		rd := bufio.NewReaderSize(stdout, 1<<16)
		var cur []string
		for {
			line, err := rd.ReadString('\n')
			line = strings.TrimSpace(line)
			if strings.HasPrefix(line, "\"done-") || strings.HasPrefix(line, "done-") {
				var i int
				fmt.Sscanf(strings.Trim(line, "\""), "done-%d", &i)
				answers <- answer{i, cur}
				cur = nil
			} else if line != "" {
				cur = append(cur, line)
			}
			if err != nil {
				close(answers)
				return
			}
		}
	}()
	w := bufio.NewWriterSize(stdin, 1<<20)
	w.WriteString("(set-option :produce-models false)\n")
	prelude := c.incPrelude()
	w.WriteString(prelude)
	cum := len(prelude)
	asserted := 0
	misses := 0
	for i, o := range job.obls {
		if misses >= 3 {
			return // this function's queries are not for the incremental pass: the portfolio takes over
		}
		n := o.NAssume
		if n > len(c.assumes) {
			n = len(c.assumes)
		}
		for ; asserted < n; asserted++ {
			w.WriteString("(assert " + c.assumes[asserted] + ")\n")
			cum += len(c.assumes[asserted]) + 10
		}
		o.SizeB = cum + len(o.Goal)
		w.WriteString("(push 1)\n(assert " + o.Goal + ")\n(check-sat)\n(pop 1)\n")
		fmt.Fprintf(w, "(echo \"done-%d\")\n", i)
		if err := w.Flush(); err != nil {
			return
		}
		t0 := time.Now()
		select {
		case a, ok := <-answers:
			if !ok {
				return
			}
			if a.idx == i && len(a.lines) == 1 && a.lines[0] == "unsat" {
				o.Status, o.Solver = "discharged", "z3-new(incremental)"
				o.Secs = time.Since(t0).Seconds()
				o.Output = fmt.Sprintf("z3-new incremental: unsat (%.2fs)", o.Secs)
				misses = 0
			} else if a.idx != i || len(a.lines) != 1 {
				return // out of step (an error message from the solver): leave the rest to the portfolio
			} else {
				misses++
			}
		case <-time.After(perQuery + 10*time.Second):
			return
		case <-ctx.Done():
			return
		}
	}
}

// solveAllQuick: incremental first pass per function, then the portfolio on whatever is still undecided.
func solveAllQuick(obls []*obligation, opts solveOpts) {
	if opts.workers <= 0 {
		opts.workers = 8
	}
	groups := map[*smtctx][]*obligation{}
	var order []*smtctx
	for _, o := range obls {
		if o.ExpectSat || o.ctx == nil {
			continue
		}
		if _, ok := groups[o.ctx]; !ok {
			order = append(order, o.ctx)
		}
		groups[o.ctx] = append(groups[o.ctx], o)
	}
	var jobs []incJob
	for _, c := range order {
		g := groups[c]
		if len(g) < 3 {
			continue
		}
		sort.SliceStable(g, func(i, j int) bool { return g[i].NAssume < g[j].NAssume })
		// large functions are walked by several processes, each starting from the prefix its first goal needs
		chunks := 1
		if len(g) > 60 {
			chunks = (len(g) + 59) / 60
			if chunks > 6 {
				chunks = 6
			}
		}
		per := (len(g) + chunks - 1) / chunks
		for s := 0; s < len(g); s += per {
			e := s + per
			if e > len(g) {
				e = len(g)
			}
			jobs = append(jobs, incJob{ctx: c, obls: g[s:e]})
		}
	}
	// longest jobs first
	sort.SliceStable(jobs, func(i, j int) bool { return len(jobs[i].obls) > len(jobs[j].obls) })
	ch := make(chan incJob)
	var wg sync.WaitGroup
	for i := 0; i < opts.workers; i++ {
		wg.Add(1)
		go func() {
			defer wg.Done()
			for j := range ch {
				runIncremental(j, opts)
			}
		}()
	}
	for _, j := range jobs {
		ch <- j
	}
	close(ch)
	wg.Wait()
	var rest []*obligation
	for _, o := range obls {
		if o.Status == "" {
			rest = append(rest, o)
		}
	}
	solveAll(rest, opts)
	if opts.dumpDir != "" {
		for _, o := range obls {
			if o.SizeB == 0 && o.ctx != nil {
				script := o.ctx.scriptMode(o.NAssume, o.Goal, nil, o.ExpectSat)
				o.SizeB = len(script)
				os.MkdirAll(opts.dumpDir, 0o755)
				os.WriteFile(filepath.Join(opts.dumpDir, mangle(o.Name)+".smt2"), []byte(script), 0o644)
			}
		}
	}
}
