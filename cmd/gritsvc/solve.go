package main

// Running the SMT solvers: z3 5.1.0 (z3-new) first, then z3 4.8.12 and cvc5 1.0 in parallel.

import (
	"bytes"
	"context"
	"fmt"
	"os"
	"os/exec"
	"path/filepath"
	"strings"
	"sync"
	"time"
)

type solverRes struct {
	status string // unsat sat unknown timeout error
	out    string
	secs   float64
	solver string
}

func runSolver(name string, script string, timeout time.Duration) solverRes {
	var cmd *exec.Cmd
	ctx, cancel := context.WithTimeout(context.Background(), timeout+2*time.Second)
	defer cancel()
	secs := int(timeout.Seconds())
	if secs < 1 {
		secs = 1
	}
	input := script
	switch name {
	case "z3-new":
		cmd = exec.CommandContext(ctx, "z3-new", "-in", "-smt2", fmt.Sprintf("-T:%d", secs))
		input = "(set-option :produce-models true)\n" + script
	case "z3":
		cmd = exec.CommandContext(ctx, "z3", "-in", "-smt2", fmt.Sprintf("-T:%d", secs))
		input = "(set-option :produce-models true)\n" + script
	case "cvc5":
		cmd = exec.CommandContext(ctx, "cvc5", "--lang=smt2", fmt.Sprintf("--tlimit=%d", secs*1000), "--produce-models", "--strings-exp")
		input = "(set-logic ALL)\n" + script
	default:
		return solverRes{status: "error", out: "unknown solver " + name, solver: name}
	}
	cmd.Stdin = strings.NewReader(input)
	var out, errb bytes.Buffer
	cmd.Stdout = &out
	cmd.Stderr = &errb
	t0 := time.Now()
	cmd.Run()
	res := solverRes{solver: name, secs: time.Since(t0).Seconds(), out: out.String()}
	first := strings.TrimSpace(strings.SplitN(strings.TrimSpace(out.String()), "\n", 2)[0])
	switch {
	case first == "unsat":
		res.status = "unsat"
	case first == "sat":
		res.status = "sat"
	case first == "unknown":
		res.status = "unknown"
	case first == "timeout" || ctx.Err() != nil:
		res.status = "timeout"
	default:
		res.status = "error"
		res.out = out.String() + errb.String()
	}
	return res
}

type solveOpts struct {
	timeout  time.Duration
	twoVotes bool // thorough: require two independent unsat answers where possible
	workers  int
	dumpDir  string
}

// decide runs the portfolio on one obligation.
func decide(o *obligation, opts solveOpts) {
	script := o.ctx.scriptMode(o.NAssume, o.Goal, nil, o.ExpectSat)
	o.SizeB = len(script)
	if o.ExpectSat {
		// vacuity probes: a contradiction among the assumptions is found quickly by instantiation or not at all;
		// finding a model of quantified assumptions is often beyond the solvers, and "inconclusive" is tolerated
		if opts.twoVotes && opts.timeout > 10*time.Second {
			opts.timeout = 10 * time.Second
		} else if !opts.twoVotes && opts.timeout > 3*time.Second {
			opts.timeout = 3 * time.Second
		}
	}
	if opts.dumpDir != "" {
		os.MkdirAll(opts.dumpDir, 0o755)
		os.WriteFile(filepath.Join(opts.dumpDir, mangle(o.Name)+".smt2"), []byte(script), 0o644)
	}
	want := "unsat"
	if o.ExpectSat {
		want = "sat"
	}
	t0 := time.Now()
	r := runSolver("z3-new", script, opts.timeout)
	var all []solverRes
	all = append(all, r)
	votes := 0
	if r.status == want {
		votes++
	}
	needMore := r.status != "unsat" && r.status != "sat"
	if o.ExpectSat && !opts.twoVotes {
		needMore = false
	}
	if opts.twoVotes && r.status == want && !o.ExpectSat {
		needMore = true
	}
	if needMore {
		var wg sync.WaitGroup
		rs := make([]solverRes, 2)
		for i, s := range []string{"z3", "cvc5"} {
			wg.Add(1)
			go func(i int, s string) {
				defer wg.Done()
				rs[i] = runSolver(s, script, opts.timeout)
			}(i, s)
		}
		wg.Wait()
		all = append(all, rs...)
		for _, x := range rs {
			if x.status == want {
				votes++
			}
		}
	}
	o.Secs = time.Since(t0).Seconds()
	// classify
	var unsat, sat *solverRes
	for i := range all {
		if all[i].status == "unsat" && unsat == nil {
			unsat = &all[i]
		}
		if all[i].status == "sat" && sat == nil {
			sat = &all[i]
		}
	}
	var outs []string
	for _, x := range all {
		outs = append(outs, fmt.Sprintf("%s: %s (%.2fs)", x.solver, x.status, x.secs))
	}
	o.Output = strings.Join(outs, "; ")
	switch {
	case unsat != nil && sat != nil:
		o.Status = "disagreement"
		o.Solver = unsat.solver + "/" + sat.solver
	case o.ExpectSat && sat != nil:
		o.Status, o.Solver = "discharged", sat.solver
	case o.ExpectSat && unsat != nil:
		o.Status, o.Solver = "vacuous", unsat.solver
	case o.ExpectSat:
		o.Status = "inconclusive"
	case unsat != nil:
		o.Status, o.Solver = "discharged", unsat.solver
		if opts.twoVotes && votes < 2 {
			o.Output += "; second vote missing"
		}
	case sat != nil:
		o.Status, o.Solver = "refuted", sat.solver
	default:
		o.Status = "unknown"
	}
}

// modelFor re-runs a refuted obligation asking for the values of its input terms.
func modelFor(o *obligation, terms []string, timeout time.Duration) string {
	if len(terms) == 0 {
		return ""
	}
	script := o.ctx.script(o.NAssume, o.Goal, terms)
	for _, s := range []string{"z3-new", "z3"} {
		r := runSolver(s, script, timeout)
		if r.status == "sat" {
			lines := strings.SplitN(r.out, "\n", 2)
			if len(lines) == 2 {
				return strings.TrimSpace(lines[1])
			}
		}
	}
	return ""
}

// decideWithSplit: if the plain query is inconclusive and the obligation has a case split, every case is tried
// separately; the obligation is discharged when all cases are.
func decideWithSplit(o *obligation, opts solveOpts) {
	decide(o, opts)
	if o.Status != "unknown" || len(o.Splits) < 2 || o.ExpectSat {
		return
	}
	total := o.Secs
	var outs []string
	all := true
	for i, sc := range o.Splits {
		sub := *o
		sub.Goal = and(o.Goal, sc)
		sub.Splits = nil
		decide(&sub, opts)
		total += sub.Secs
		outs = append(outs, fmt.Sprintf("case %d: %s [%s]", i+1, sub.Status, sub.Output))
		if sub.Status != "discharged" {
			all = false
			if sub.Status == "refuted" {
				o.Status = "refuted"
				o.Goal = sub.Goal
				o.Solver = sub.Solver
			}
		}
	}
	o.Secs = total
	o.Output += "; case split over the nearest join: " + strings.Join(outs, "; ")
	if all {
		o.Status = "discharged"
		o.Solver = "z3-new(split)"
	}
}

func solveAll(obls []*obligation, opts solveOpts) {
	if opts.workers <= 0 {
		opts.workers = 8
	}
	ch := make(chan *obligation)
	var wg sync.WaitGroup
	for i := 0; i < opts.workers; i++ {
		wg.Add(1)
		go func() {
			defer wg.Done()
			for o := range ch {
				decideWithSplit(o, opts)
			}
		}()
	}
	for _, o := range obls {
		ch <- o
	}
	close(ch)
	wg.Wait()
}
