package main

// Reading the contract files: comment-only Go files (`//go:build verif`) in /repo packages whose
// `//@` lines carry specs, lemmas and contracts, plus /verif/specs/*.contracts for assumed
// contracts on functions outside the module.

import (
	"fmt"
	"os"
	"path/filepath"
	"regexp"
	"sort"
	"strconv"
	"strings"
)

type clause struct {
	Kind  string // requires, ensures, decreases, loopinv, loopdec, loopmod
	Target string // callsite clauses: short name of the callee
	Layer string // "" = base contract; otherwise the property whose separate verification layer the clause belongs to
	Label string // ensures label, e.g. C17.table
	Loop  int
	Src   string
	Expr  cExpr
	Exprs []cExpr // decreases tuple
	File  string
	Line  int
	FromExternal bool // the clause was written in an `external` block of a client package (see contract.Mixed)
}

type grammarDecl struct {
	Source, Generated string
	Values            bool     // the module/grammar/values obligation is part of the property's check
	ValueExcept       []string // LHS/ordinal of alternatives exempt from it
	NonEmpty          []string // nonterminals that must not derive the empty string (lists the contracts assume non-empty)
	Command           []string
	Precedence        []string
	File              string
	Line              int
}

type specParam struct{ Name, Type string }

type specDef struct {
	Name   string
	Pkg    string // package path in which type names are resolved
	Params []specParam
	Ret    string
	Body   cExpr // nil = uninterpreted
	Where  cExpr // definitional characterisation: assumed for every ground application (result = the application)
	Src    string
	Fuel   int
	Macro  bool // always expanded in place (must not be recursive through macros)
	File   string
	Line   int
}

type lemmaDef struct {
	Label string
	Pkg   string
	Src   string
	Expr  cExpr
	File  string
	Line  int
	// a lemma that mentions old(...) relates two heaps (e.g. before and after a call); it may be proved by
	// well-founded induction on an integer measure over its quantified variables ("by induction on size(t)")
	TwoState bool
	Measure  cExpr
	reads    map[string]bool // heap keys the lemma reads (computed on first use)
}

type contract struct {
	Ref       string // e.g. grits/types.(*AffineMode).CanBeDownshiftedTo or grits/types.Modality.CanBeDownshiftedTo for interface
	Pkg       string
	Interface bool
	External  bool // assumed, not verified
	HeapWF    bool // include the heap well-formedness axioms in this function's queries
	Defines   cExpr
	DefinesSrc string
	DefinesLayer string
	Names     []string // optional parameter names (receiver first)
	Clauses   []*clause
	Safety    []string // property ids to which nopanic obligations are attributed
	Props     []string // extra property ids this function's structural obligations are attributed to
	Inline    bool
	Pure      bool     // modifies nothing (checked against the mod-set analysis for module functions)
	Modifies  []string // heap keys; nil = computed
	Emits     []*clause // ghost events: NAME = EXPR (definitional: assumed at call sites, never an obligation)
	NoReturn  bool
	Mixed     bool // has both an `external` block (a client's assumptions) and a `contract` block of its own
	curExternal bool // parser state: the block being read is the external one
	UnreachableLayer string
	Unreachable bool // the precondition (with the receiver's type) is unsatisfiable: never called under its contract
	File      string
	Line      int
}

type contractDB struct {
	Specs     map[string]*specDef
	Lemmas    []*lemmaDef
	Contracts map[string]*contract
	Markers   []string // assume/axiom/trusted style markers found
	Ghosts    map[string]string // ghost state variable -> type
	Invariants map[string][]*clause // layer -> global invariants of the property's sweep (assumed at entry of every function in scope, asserted at its exits and before every call into the scope)
	AtomicInit map[string]bool // functions that run before any goroutine is started (may access atomic fields plainly)
	Owned      map[string]bool // types whose values belong to one goroutine at a time
	Moves      map[string]bool // functions that hand their receiver to a new goroutine
	Includes   map[string][]string // property -> properties whose obligations its check also discharges (it rests on them)
	Grammars   map[string]*grammarDecl // property -> the grammar assumptions its contracts rest on
	Shared     map[string]bool   // types whose values are reachable from every goroutine of a run
	SoleWriter map[string]string // TYPE.field -> the one function (a goroutine of its own) that writes it after start-up
	Discipline map[string]bool // properties that include the access-discipline obligations (atomic fields, moved values)
	GlobalFrame map[string]bool // properties that include the module-wide frame obligations for package-level variables
	RevealPost map[string]bool // layers in which the spec terms of callee postconditions are unfolded one level
	Scopes    map[string][]string // property -> root functions: every module function reachable from them is in the property's sweep
	Files     []string
}

var clauseKw = regexp.MustCompile(`^(includes|grammarnonempty|grammarvalues|grammar|precedence|owned|shared|solewriter|discipline|atomicinit|moves|globalframe|defines|heapwf|reveal|scope|invariant|ghost|spec|macro|lemma|contract|external|requires|ensures|emits|callsite|decreases|loop|safety|props|inline|pure|modifies|noreturn|fuel|unreachable)\b`)

func newContractDB() *contractDB {
	return &contractDB{Specs: map[string]*specDef{}, Contracts: map[string]*contract{}, Ghosts: map[string]string{}, Scopes: map[string][]string{}, Invariants: map[string][]*clause{}, RevealPost: map[string]bool{}, GlobalFrame: map[string]bool{}, AtomicInit: map[string]bool{}, Moves: map[string]bool{}, Owned: map[string]bool{}, Discipline: map[string]bool{}, Shared: map[string]bool{}, SoleWriter: map[string]string{}, Grammars: map[string]*grammarDecl{}, Includes: map[string][]string{}}
}

// loadContractFile parses one file. pkgPath is the Go package the file belongs to ("" for external files,
// in which case references must be fully qualified).
func (db *contractDB) loadContractFile(path, pkgPath string) error {
	data, err := os.ReadFile(path)
	if err != nil {
		return err
	}
	db.Files = append(db.Files, path)
	type rawClause struct {
		text string
		line int
	}
	var raws []rawClause
	for i, ln := range strings.Split(string(data), "\n") {
		t := strings.TrimSpace(ln)
		if strings.HasPrefix(t, "// @") {
			t = "//@" + t[4:]
		}
		if !strings.HasPrefix(t, "//@") {
			continue
		}
		t = strings.TrimSpace(strings.TrimPrefix(t, "//@"))
		if t == "" || strings.HasPrefix(t, "#") {
			continue
		}
		// strip trailing comment " // ..." (not inside strings)
		if k := indexOutsideString(t, "//"); k >= 0 {
			t = strings.TrimSpace(t[:k])
		}
		if t == "" {
			continue
		}
		if clauseKw.MatchString(t) {
			raws = append(raws, rawClause{t, i + 1})
		} else if len(raws) > 0 {
			raws[len(raws)-1].text += " " + t
		} else {
			return fmt.Errorf("%s:%d: continuation line without a clause", path, i+1)
		}
		for _, bad := range []string{"assume ", "axiom ", "trusted ", "admit"} {
			if strings.HasPrefix(t, bad) {
				db.Markers = append(db.Markers, fmt.Sprintf("%s:%d: %s", path, i+1, t))
			}
		}
	}
	var cur *contract
	for _, rc := range raws {
		kw := clauseKw.FindString(rc.text)
		rest := rc.text[len(kw):]
		layer := ""
		if strings.HasPrefix(rest, "[") {
			if k := strings.Index(rest, "]"); k > 0 {
				layer = strings.TrimSpace(rest[1:k])
				rest = rest[k+1:]
			}
		}
		rest = strings.TrimSpace(rest)
		fail := func(f string, a ...any) error {
			return fmt.Errorf("%s:%d: %s", path, rc.line, fmt.Sprintf(f, a...))
		}
		switch kw {
		case "invariant":
			// invariant[PROP] expr: a state invariant of the property's sweep
			if layer == "" {
				return fail("invariant[PROP] expr")
			}
			e, err := parseCExpr(rest)
			if err != nil {
				return fail("%v", err)
			}
			db.Invariants[layer] = append(db.Invariants[layer], &clause{Kind: "invariant", Layer: layer, Label: layer + ".invariant", Src: rest, Expr: e, File: path, Line: rc.line, Target: pkgPath})
			cur = nil
		case "owned":
			for _, r := range strings.Fields(rest) {
				if pkgPath != "" && !strings.Contains(r, "/") {
					r = pkgPath + "." + r
				}
				db.Owned[r] = true
			}
			cur = nil
		case "shared":
			for _, r := range strings.Fields(rest) {
				if pkgPath != "" && !strings.Contains(r, "/") {
					r = pkgPath + "." + r
				}
				db.Shared[r] = true
			}
			cur = nil
		case "solewriter":
			f := strings.Fields(rest)
			if len(f) != 2 {
				return fail("solewriter TYPE.field FUNC")
			}
			t, fn := f[0], f[1]
			if pkgPath != "" && !strings.Contains(t, "/") {
				t = pkgPath + "." + t
			}
			if pkgPath != "" && !strings.Contains(fn, "/") {
				if strings.HasPrefix(fn, "(*") {
					fn = "(*" + pkgPath + "." + fn[2:]
				} else {
					fn = pkgPath + "." + fn
				}
			}
			db.SoleWriter[t] = fn
			cur = nil
		case "discipline":
			for _, l := range strings.Fields(rest) {
				db.Discipline[l] = true
			}
			cur = nil
		case "atomicinit", "moves":
			for _, r := range strings.Fields(rest) {
				if pkgPath != "" && !strings.Contains(r, "/") {
					if strings.HasPrefix(r, "(*") {
						r = "(*" + pkgPath + "." + r[2:]
					} else {
						r = pkgPath + "." + r
					}
				}
				if kw == "moves" {
					db.Moves[r] = true
				} else {
					db.AtomicInit[r] = true
				}
			}
			cur = nil
		case "includes":
			// includes PROP OTHER...: PROP's claim rests on the contracts of OTHER; its check discharges them too
			f := strings.Fields(rest)
			if len(f) < 2 {
				return fail("includes PROP OTHER...")
			}
			db.Includes[f[0]] = append(db.Includes[f[0]], f[1:]...)
			cur = nil
		case "grammar":
			// grammar PROP SOURCE GENERATED COMMAND... : the generated parser is what COMMAND makes of SOURCE (paths relative to the repository)
			f := strings.Fields(rest)
			if len(f) < 4 {
				return fail("grammar PROP SOURCE GENERATED COMMAND...")
			}
			g := db.Grammars[f[0]]
			if g == nil {
				g = &grammarDecl{}
				db.Grammars[f[0]] = g
			}
			g.Source, g.Generated, g.Command, g.File, g.Line = f[1], f[2], f[3:], path, rc.line
			cur = nil
		case "grammarnonempty":
			// grammarnonempty PROP NT...: these nonterminals cannot derive the empty string
			f := strings.Fields(rest)
			if len(f) < 2 {
				return fail("grammarnonempty PROP NONTERMINAL...")
			}
			g := db.Grammars[f[0]]
			if g == nil {
				g = &grammarDecl{}
				db.Grammars[f[0]] = g
			}
			g.NonEmpty = append(g.NonEmpty, f[1:]...)
			cur = nil
		case "grammarvalues":
			// grammarvalues PROP [except LHS/N ...]: every action uses the value of every nonterminal of its right-hand side
			f := strings.Fields(rest)
			if len(f) < 1 {
				return fail("grammarvalues PROP [except LHS/N ...]")
			}
			g := db.Grammars[f[0]]
			if g == nil {
				g = &grammarDecl{}
				db.Grammars[f[0]] = g
			}
			g.Values = true
			for _, x := range f[1:] {
				if x != "except" {
					g.ValueExcept = append(g.ValueExcept, x)
				}
			}
			cur = nil
		case "precedence":
			// precedence PROP %right A B C : the associativity/precedence declarations of the grammar, in order, are exactly these lines
			f := strings.Fields(rest)
			if len(f) < 2 {
				return fail("precedence PROP %%assoc TOKENS...")
			}
			g := db.Grammars[f[0]]
			if g == nil {
				g = &grammarDecl{}
				db.Grammars[f[0]] = g
			}
			g.Precedence = append(g.Precedence, strings.Join(f[1:], " "))
			cur = nil
		case "globalframe":
			// globalframe PROP: the property's check includes one frame obligation per package-level variable
			for _, l := range strings.Fields(rest) {
				db.GlobalFrame[l] = true
			}
			cur = nil
		case "reveal":
			// reveal LAYER: in this layer the spec terms of callee postconditions are unfolded one level
			for _, l := range strings.Fields(rest) {
				db.RevealPost[l] = true
			}
			cur = nil
		case "scope":
			// scope PROP ROOT...: the property's safety sweep covers every module function reachable from the roots
			f := strings.Fields(rest)
			if len(f) < 2 {
				return fail("scope PROP ROOT...")
			}
			for _, r := range f[1:] {
				if pkgPath != "" && !strings.Contains(r, "/") {
					r = pkgPath + "." + r
				}
				db.Scopes[f[0]] = append(db.Scopes[f[0]], r)
			}
			cur = nil
		case "ghost":
			f := strings.Fields(rest)
			if len(f) != 2 {
				return fail("ghost NAME TYPE")
			}
			db.Ghosts[f[0]] = f[1]
			cur = nil
		case "spec", "macro":
			sd, err := parseSpecDecl(rest)
			if err != nil {
				return fail("%v", err)
			}
			sd.Macro = kw == "macro"
			if sd.Macro && sd.Body == nil {
				return fail("macro %s needs a body", sd.Name)
			}
			sd.Pkg, sd.File, sd.Line = pkgPath, path, rc.line
			if _, dup := db.Specs[sd.Name]; dup {
				return fail("duplicate spec %s", sd.Name)
			}
			db.Specs[sd.Name] = sd
			cur = nil
		case "lemma":
			k := strings.Index(rest, ":")
			if k < 0 {
				return fail("lemma needs 'label: expr'")
			}
			body := rest[k+1:]
			var measure cExpr
			if j := strings.LastIndex(body, " by induction on "); j >= 0 {
				m, err := parseCExpr(body[j+len(" by induction on "):])
				if err != nil {
					return fail("%v", err)
				}
				measure = m
				body = body[:j]
			}
			e, err := parseCExpr(body)
			if err != nil {
				return fail("%v", err)
			}
			db.Lemmas = append(db.Lemmas, &lemmaDef{Label: strings.TrimSpace(rest[:k]), Pkg: pkgPath, Src: strings.TrimSpace(rest[k+1:]), Expr: e, File: path, Line: rc.line,
				TwoState: strings.Contains(body, "old("), Measure: measure})
			cur = nil
		case "contract", "external":
			c := &contract{Pkg: pkgPath, File: path, Line: rc.line, External: kw == "external"}
			if strings.HasPrefix(rest, "interface ") {
				c.Interface = true
				rest = strings.TrimSpace(strings.TrimPrefix(rest, "interface "))
			}
			// optional names list at the end: "(a, b, c)" after the reference. The reference itself may
			// contain "(*T)" so look for the *last* parenthesis group that follows a method/function name.
			ref := rest
			if m := regexp.MustCompile(`^(.*[A-Za-z0-9_$])\(([A-Za-z0-9_, ]*)\)$`).FindStringSubmatch(rest); m != nil {
				ref = m[1]
				for _, n := range strings.Split(m[2], ",") {
					if n = strings.TrimSpace(n); n != "" {
						c.Names = append(c.Names, n)
					}
				}
			}
			if pkgPath != "" && !strings.Contains(ref, "/") && !c.External {
				switch {
				case strings.HasPrefix(ref, "(*"):
					ref = "(*" + pkgPath + "." + ref[2:]
				case strings.HasPrefix(ref, "("):
					ref = "(" + pkgPath + "." + ref[1:]
				default:
					ref = pkgPath + "." + ref
				}
			}
			c.Ref = ref
			if prev, dup := db.Contracts[ref]; dup {
				// further clauses for a function that already has a contract block are merged into it
				if prev.Interface != c.Interface {
					return fail("conflicting contract kinds for %s", ref)
				}
				if prev.External != c.External || prev.Mixed {
					// a module function described as `external` by a client package (what that client assumes of it)
					// and under `contract` in its own package: one contract; it is verified, and used as a verified
					// contract, in the layers its own clauses speak about, and stays an assumption elsewhere
					if prev.External {
						for _, cl := range prev.Clauses {
							cl.FromExternal = true
						}
						for _, cl := range prev.Emits {
							cl.FromExternal = true
						}
					}
					prev.External = false
					prev.Mixed = true
					prev.curExternal = c.External
				}
				if len(prev.Names) == 0 {
					prev.Names = c.Names
				}
				cur = prev
				continue
			}
			db.Contracts[ref] = c
			cur = c
		default:
			if cur == nil {
				return fail("clause %q outside a contract", kw)
			}
			cl := &clause{File: path, Line: rc.line, Layer: layer}
			switch kw {
			case "requires":
				cl.Kind, cl.Src = "requires", rest
			case "ensures":
				k := strings.Index(rest, ":")
				if k < 0 || strings.ContainsAny(rest[:k], " ()") {
					cl.Kind, cl.Src, cl.Label = "ensures", rest, "post"
				} else {
					cl.Kind, cl.Label, cl.Src = "ensures", strings.TrimSpace(rest[:k]), strings.TrimSpace(rest[k+1:])
				}
			case "callsite":
				// callsite LABEL TARGET#N: EXPR   -- must hold in the caller's state whenever the N-th call of TARGET is reached
				k := strings.Index(rest, ":")
				f := strings.Fields(rest[:maxI(k, 0)])
				if k < 0 || len(f) != 2 || !strings.Contains(f[1], "#") {
					return fail("callsite LABEL TARGET#N: expr")
				}
				cl.Kind, cl.Label, cl.Src = "callsite", f[0], strings.TrimSpace(rest[k+1:])
				hash := strings.LastIndex(f[1], "#")
				cl.Target = f[1][:hash]
				n, err := strconv.Atoi(f[1][hash+1:])
				if err != nil {
					return fail("callsite ordinal: %v", err)
				}
				cl.Loop = n
			case "emits":
				k := strings.Index(rest, "=")
				if k < 0 {
					return fail("emits NAME = expr")
				}
				cl.Kind, cl.Label, cl.Src = "emits", strings.TrimSpace(rest[:k]), strings.TrimSpace(rest[k+1:])
				if _, ok := db.Ghosts[cl.Label]; !ok {
					return fail("emits: unknown ghost variable %s", cl.Label)
				}
				e, err := parseCExpr(cl.Src)
				if err != nil {
					return fail("%v", err)
				}
				cl.Expr = e
				if cur.Mixed && cur.curExternal {
					cl.FromExternal = true
				}
				cur.Emits = append(cur.Emits, cl)
				continue
			case "decreases":
				cl.Kind, cl.Src = "decreases", rest
			case "loop":
				f := strings.Fields(rest)
				if len(f) < 3 {
					return fail("loop N invariant|decreases expr")
				}
				n, err := strconv.Atoi(f[0])
				if err != nil {
					return fail("loop ordinal: %v", err)
				}
				cl.Loop = n
				switch f[1] {
				case "invariant":
					cl.Kind = "loopinv"
				case "decreases":
					cl.Kind = "loopdec"
				case "counts":
					// loop N counts VAR, LO, HI: the loop visits VAR = LO, LO+1, ..., HI-1, each once: VAR is LO when the loop
					// is entered, grows by one on every way round, and the loop is left only by its own test, with VAR >= HI
					cl.Kind = "loopcount"
				default:
					return fail("loop N invariant|decreases|counts expr")
				}
				cl.Src = strings.TrimSpace(strings.SplitN(rest, f[1], 2)[1])
			case "safety":
				cur.Safety = append(cur.Safety, splitList(rest)...)
				continue
			case "props":
				cur.Props = append(cur.Props, splitList(rest)...)
				continue
			case "inline":
				cur.Inline = true
				continue
			case "pure":
				cur.Pure = true
				continue
			case "noreturn":
				cur.NoReturn = true
				continue
			case "unreachable":
				cur.Unreachable = true
				cur.UnreachableLayer = layer
				continue
			case "modifies":
				cur.Modifies = append(cur.Modifies, splitList(rest)...)
				continue
			case "fuel":
				continue
			case "defines":
				// defines SPEC(args): the function's result is, by definition, the value of an otherwise uninterpreted
				// spec function of these arguments. Nothing is proved of it; what makes the definition meaningful is that
				// the function is a deterministic function of its arguments and of the heap the spec reads (its write
				// analysis must show no effect on pre-existing objects). Listed among the assumptions of every check using it.
				e, err := parseCExpr(rest)
				if err != nil {
					return fail("%v", err)
				}
				cur.Defines = e
				cur.DefinesLayer = layer
				cur.DefinesSrc = rest
				continue
			case "heapwf":
				// the function's proof needs the heap well-formedness axioms (values stored in allocated cells were
				// allocated earlier); they are left out elsewhere because they slow every query down
				cur.HeapWF = true
				continue
			}
			if cl.Kind == "decreases" || cl.Kind == "loopdec" || cl.Kind == "loopcount" {
				for _, part := range splitTop(cl.Src, ',') {
					e, err := parseCExpr(part)
					if err != nil {
						return fail("%v", err)
					}
					cl.Exprs = append(cl.Exprs, e)
				}
			} else {
				e, err := parseCExpr(cl.Src)
				if err != nil {
					return fail("%v", err)
				}
				cl.Expr = e
			}
			if cur.Mixed && cur.curExternal {
				cl.FromExternal = true
			}
			cur.Clauses = append(cur.Clauses, cl)
		}
	}
	return nil
}

func splitList(s string) []string {
	var out []string
	for _, f := range strings.FieldsFunc(s, func(r rune) bool { return r == ',' || r == ' ' }) {
		out = append(out, f)
	}
	return out
}

func indexOutsideString(s, sub string) int {
	in := false
	for i := 0; i < len(s); i++ {
		if s[i] == '"' && (i == 0 || s[i-1] != '\\') {
			in = !in
		}
		if !in && strings.HasPrefix(s[i:], sub) {
			return i
		}
	}
	return -1
}

// splitTop splits at sep occurring outside parentheses/brackets/strings.
func splitTop(s string, sep byte) []string {
	var out []string
	depth, in, start := 0, false, 0
	for i := 0; i < len(s); i++ {
		c := s[i]
		if c == '"' && (i == 0 || s[i-1] != '\\') {
			in = !in
		}
		if in {
			continue
		}
		switch c {
		case '(', '[':
			depth++
		case ')', ']':
			depth--
		}
		if c == sep && depth == 0 {
			out = append(out, strings.TrimSpace(s[start:i]))
			start = i + 1
		}
	}
	out = append(out, strings.TrimSpace(s[start:]))
	return out
}

// spec NAME(p T, q U) RET [= expr]
func parseSpecDecl(s string) (*specDef, error) {
	open := strings.Index(s, "(")
	if open < 0 {
		return nil, fmt.Errorf("spec: missing '('")
	}
	depth, close := 0, -1
	for i := open; i < len(s); i++ {
		if s[i] == '(' {
			depth++
		}
		if s[i] == ')' {
			depth--
			if depth == 0 {
				close = i
				break
			}
		}
	}
	if close < 0 {
		return nil, fmt.Errorf("spec: missing ')'")
	}
	sd := &specDef{Name: strings.TrimSpace(s[:open]), Src: s, Fuel: 1}
	for _, p := range splitTop(s[open+1:close], ',') {
		if p == "" {
			continue
		}
		f := strings.SplitN(strings.TrimSpace(p), " ", 2)
		if len(f) != 2 {
			return nil, fmt.Errorf("spec %s: parameter %q needs a type", sd.Name, p)
		}
		sd.Params = append(sd.Params, specParam{f[0], strings.TrimSpace(f[1])})
	}
	rest := strings.TrimSpace(s[close+1:])
	if k := strings.Index(rest, " where "); k >= 0 {
		sd.Ret = strings.TrimSpace(rest[:k])
		e, err := parseCExpr(strings.TrimSpace(rest[k+7:]))
		if err != nil {
			return nil, err
		}
		sd.Where = e
		return sd, nil
	}
	if k := indexOutsideString(rest, "="); k >= 0 && !strings.HasPrefix(rest[k:], "==") {
		sd.Ret = strings.TrimSpace(rest[:k])
		body := strings.TrimSpace(rest[k+1:])
		e, err := parseCExpr(body)
		if err != nil {
			return nil, err
		}
		sd.Body = e
	} else {
		sd.Ret = rest
	}
	if sd.Ret == "" {
		return nil, fmt.Errorf("spec %s: missing result type", sd.Name)
	}
	return sd, nil
}

// loadAllContracts reads zz_contracts_verif.go from every package dir of the module and the
// external contract files under specsDir.
func loadAllContracts(repo, modPath, specsDir string) (*contractDB, error) {
	db := newContractDB()
	var files []string
	filepath.Walk(repo, func(p string, info os.FileInfo, err error) error {
		if err != nil {
			return nil
		}
		if info.IsDir() && (info.Name() == ".git" || info.Name() == "examples") {
			return filepath.SkipDir
		}
		if !info.IsDir() && info.Name() == "zz_contracts_verif.go" {
			files = append(files, p)
		}
		return nil
	})
	sort.Strings(files)
	for _, f := range files {
		rel, _ := filepath.Rel(repo, filepath.Dir(f))
		pkg := modPath
		if rel != "." {
			pkg = modPath + "/" + filepath.ToSlash(rel)
		}
		if err := db.loadContractFile(f, pkg); err != nil {
			return nil, err
		}
	}
	ext, _ := filepath.Glob(filepath.Join(specsDir, "*.contracts"))
	sort.Strings(ext)
	for _, f := range ext {
		if err := db.loadContractFile(f, ""); err != nil {
			return nil, err
		}
	}
	return db, nil
}

// clauses returns the clauses of the given kind visible in a verification layer (base clauses always).
func (ct *contract) clausesFor(layer string) []*clause {
	var out []*clause
	for _, cl := range ct.Clauses {
		if cl.Layer == "" || cl.Layer == layer {
			out = append(out, cl)
		}
	}
	return out
}

// externalIn: in this layer the contract is an assumption about a function that is not verified here.
func (ct *contract) externalIn(layer string) bool {
	if ct.External {
		return true
	}
	if !ct.Mixed {
		return false
	}
	for _, cl := range ct.Clauses {
		if !cl.FromExternal && (cl.Layer == layer || cl.Layer == "") {
			return false
		}
	}
	return true
}

func (ct *contract) hasLayer(layer string) bool {
	if ct.Unreachable && ct.UnreachableLayer == layer {
		return true
	}
	for _, cl := range ct.Clauses {
		if cl.Layer == layer {
			return true
		}
	}
	return false
}

func maxI(a, b int) int {
	if a > b {
		return a
	}
	return b
}
