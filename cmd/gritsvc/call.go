package main

// Calls: builtins, callee contracts (module, interface-level, external/assumed), inlining, opaque calls.

import (
	"os"
	"go/ast"
	"fmt"
	"go/types"
	"strings"

	"golang.org/x/tools/go/ssa"
)

type closureInfo struct {
	fn *ssa.Function
	mk *ssa.MakeClosure
	fr *frame
}

func (vc *funcVC) closureID(fn *ssa.Function) int {
	if vc.closureIDs == nil {
		vc.closureIDs = map[*ssa.Function]int{}
	}
	if id, ok := vc.closureIDs[fn]; ok {
		return id
	}
	id := len(vc.closureIDs) + 1
	vc.closureIDs[fn] = id
	return id
}

const maxInlineDepth = 3

func (fr *frame) setResult(v ssa.Value, st *state, results []string, sig *types.Signature) {
	if v == nil {
		return
	}
	rs := sig.Results()
	switch rs.Len() {
	case 0:
	case 1:
		if len(results) == 1 {
			fr.vals[v] = results[0]
		}
	default:
		fr.tuples[v] = results
	}
}

func (fr *frame) freshResults(v ssa.Value, st *state, sig *types.Signature, tag string) []string {
	c := fr.vc.c
	var out []string
	rs := sig.Results()
	for i := 0; i < rs.Len(); i++ {
		n := c.freshConst(fr.prefix+tag+"_r", c.sortOf(rs.At(i).Type()))
		out = append(out, n)
	}
	return out
}

// doCall wraps the call with the state invariants of the sweep: asserted before a call that enters a function of the
// sweep verified on its own (not executed in place), assumed again afterwards.
func (fr *frame) doCall(b *ssa.BasicBlock, st *state, ins ssa.Instruction, call *ssa.CallCommon, v ssa.Value) {
	vc := fr.vc
	var invs []*clause
	if vc.layer != "" && len(vc.w.db.Invariants[vc.layer]) > 0 {
		if _, isB := call.Value.(*ssa.Builtin); !isB {
			fns, _ := vc.ma.callees(call)
			for _, f := range fns {
				if call.IsInvoke() || !fr.willInline(f) {
					if cl := vc.scopeInvariants(f); cl != nil {
						invs = cl
					}
				}
			}
		}
	}
	if len(invs) > 0 {
		vc.nInvSites++
		for k, cl := range invs {
			tr := &trans{c: vc.c, pkg: cl.Target, vars: map[string]tvar{}, cur: st, old: vc.entry, depth: 1}
			f := vc.trClause(tr, cl)
			vc.addObl(&obligation{Name: fmt.Sprintf("pre@call%d/%s.%d", vc.nInvSites, cl.Label, k+1), Kind: "pre", Goal: and(fr.cond[b], not(f)), Pos: vc.pos(ins.Pos()), Clause: "invariant " + cl.Src, Inputs: vc.inputTerms()})
			vc.c.assume(implies(fr.cond[b], f))
		}
	}
	fr.doCall0(b, st, ins, call, v)
	for _, cl := range invs {
		tr := &trans{c: vc.c, pkg: cl.Target, vars: map[string]tvar{}, cur: st, old: vc.entry, depth: 1}
		vc.c.assume(implies(fr.cond[b], vc.trClause(tr, cl)))
	}
}

func (fr *frame) doCall0(b *ssa.BasicBlock, st *state, ins ssa.Instruction, call *ssa.CallCommon, v ssa.Value) {
	vc := fr.vc
	c := vc.c; _ = c
	if bi, ok := call.Value.(*ssa.Builtin); ok {
		fr.doBuiltin(b, st, ins, bi, call, v)
		return
	}
	fr.callsiteObls(b, st, ins, call)
	var args []string
	var argTypes []types.Type
	var callee *ssa.Function
	var ct *contract
	sig := call.Signature()
	label := ""
	if call.IsInvoke() {
		recv := fr.val(call.Value)
		fr.oblPanic(b, "nil-invoke", ins, fmt.Sprintf("(= %s nil)", recv))
		fr.assumeOK(b, fmt.Sprintf("(distinct %s nil)", recv))
		args = append(args, recv)
		argTypes = append(argTypes, call.Value.Type())
		for _, a := range call.Args {
			args = append(args, fr.val(a))
			argTypes = append(argTypes, a.Type())
		}
		key := ifaceMethodKey(call.Value.Type(), call.Method.Name())
		ct = vc.w.db.Contracts[key]
		label = key
		if ct == nil {
			// no interface-level contract: opaque with the union of the implementations' effects
			fns, _ := vc.ma.callees(call)
			ms := newModset()
			for _, f := range fns {
				if s, ok := vc.ma.sets[f]; ok {
					ms.merge(s)
				}
			}
			fr.opaque(b, st, ins, v, sig, ms, "invoke "+key, vc.w.inModule(pkgOfType(call.Value.Type())), args)
			return
		}
		fr.applyContract(b, st, ins, v, ct, nil, args, argTypes, sig, label, call)
		return
	}
	for _, a := range call.Args {
		args = append(args, fr.val(a))
		argTypes = append(argTypes, a.Type())
	}
	switch f := call.Value.(type) {
	case *ssa.Function:
		callee = f
	case *ssa.MakeClosure:
		callee = f.Fn.(*ssa.Function)
		for _, bnd := range f.Bindings {
			args = append(args, fr.val(bnd))
			argTypes = append(argTypes, bnd.Type())
		}
	default:
		// call of a function value
		fv := fr.val(call.Value)
		if ci, ok := vc.closures[fv]; ok {
			callee = ci.fn
			for _, bnd := range ci.mk.Bindings {
				args = append(args, ci.fr.val(bnd))
				argTypes = append(argTypes, bnd.Type())
			}
		} else {
			fr.dynamicCall(b, st, ins, v, call, args)
			return
		}
	}
	label = callee.String()
	ct = vc.w.db.Contracts[label]
	// a method that can be reached by dynamic dispatch is verified for non-nil receivers (the dynamic value of a
	// non-nil interface); a static call must therefore pass one
	recvChecked := false
	if callee.Signature.Recv() != nil && len(args) > 0 && ptrElem(callee.Signature.Recv().Type()) != nil && vc.w.implementsModuleIface(callee) {
		fr.oblPanic(b, "nil-recv", ins, fmt.Sprintf("(= %s nil)", args[0]))
		fr.assumeOK(b, fmt.Sprintf("(distinct %s nil)", args[0]))
		recvChecked = true
	}
	if ct != nil && !ct.Inline {
		fr.applyContract(b, st, ins, v, ct, callee, args, argTypes, sig, label, call)
		return
	}
	// methods of module types reached statically may still be covered by an interface-level contract
	if ct == nil && callee.Signature.Recv() != nil {
		if icts := vc.w.ifaceContractsFor(callee); len(icts) > 0 {
			recv := args[0]
			if !recvChecked {
				fr.oblPanic(b, "nil-recv", ins, fmt.Sprintf("(= %s nil)", recv))
			}
			fr.applyContract(b, st, ins, v, icts[0], callee, args, argTypes, sig, label, call)
			return
		}
	}
	inMod := callee.Pkg != nil && vc.w.inModule(callee.Pkg.Pkg.Path()) || (callee.Parent() != nil)
	if fr.willInline(callee) {
		fr.inlineCall(b, st, ins, v, callee, args, ct, call)
		return
	}
	ms := newModset()
	if s, ok := vc.ma.sets[callee]; ok {
		ms = s
	}
	fr.opaque(b, st, ins, v, sig, ms, "call "+label, inMod, args)
}

func pkgOfType(t types.Type) string {
	if n, ok := t.(*types.Named); ok && n.Obj().Pkg() != nil {
		return n.Obj().Pkg().Path()
	}
	return ""
}

func ifaceMethodKey(t types.Type, method string) string {
	if n, ok := t.(*types.Named); ok {
		if n.Obj().Pkg() != nil {
			return n.Obj().Pkg().Path() + "." + n.Obj().Name() + "." + method
		}
		return n.Obj().Name() + "." + method // error.Error
	}
	return t.String() + "." + method
}

// ifaceContractsFor returns the interface-level contracts a concrete method must satisfy.
func (w *world) ifaceContractsFor(fn *ssa.Function) []*contract {
	recv := fn.Signature.Recv()
	if recv == nil {
		return nil
	}
	var out []*contract
	for _, key := range sortedKeys(w.impls) {
		for _, im := range w.impls[key] {
			rt := recv.Type()
			if p, ok := rt.(*types.Pointer); ok {
				rt = p.Elem()
			}
			if types.Identical(rt, im) {
				if ct := w.db.Contracts[key+"."+fn.Name()]; ct != nil && ct.Interface {
					out = append(out, ct)
				}
			}
		}
	}
	return out
}

func (fr *frame) calleeLoops(fn *ssa.Function) []*ssa.BasicBlock {
	var hs []*ssa.BasicBlock
	for _, b := range fn.Blocks {
		for _, s := range b.Succs {
			if s.Dominates(b) {
				hs = append(hs, s)
			}
		}
	}
	return hs
}

func (vc *funcVC) recursive(fn *ssa.Function) bool {
	if vc.w.recFuncs == nil {
		vc.w.computeSCCs(vc.ma)
	}
	return vc.w.recFuncs[fn]
}

func (vc *funcVC) onStack(fn *ssa.Function) bool {
	for _, f := range vc.stack {
		if f == fn {
			return true
		}
	}
	return fn == vc.fn
}

// applyContract: assert requires, havoc, assume ensures.
func (fr *frame) applyContract(b *ssa.BasicBlock, st *state, ins ssa.Instruction, v ssa.Value, ct *contract, callee *ssa.Function, args []string, argTypes []types.Type, sig *types.Signature, label string, call *ssa.CallCommon) {
	vc := fr.vc
	c := vc.c
	bc := fr.cond[b]
	bindC := func(ct *contract, cur, old *state, results []string) *trans {
		tr := &trans{c: c, pkg: ct.Pkg, vars: map[string]tvar{}, cur: cur, old: old, depth: 1}
		names := ct.Names
		if len(names) == 0 && callee != nil {
			for _, p := range callee.Params {
				names = append(names, p.Name())
			}
			for _, fv := range callee.FreeVars {
				names = append(names, fv.Name())
			}
		}
		for i := range args {
			if i < len(names) {
				if callee != nil && len(ct.Names) == 0 && i >= len(callee.Params) && i-len(callee.Params) < len(callee.FreeVars) {
					bindFreeVar(c, tr, callee.FreeVars[i-len(callee.Params)], args[i], cur, old)
					continue
				}
				tr.vars[names[i]] = tvar{args[i], vtype{c.sortOf(argTypes[i]), argTypes[i]}}
			}
		}
		if ct.Interface && len(args) > 0 {
			tr.vars["self"] = tvar{args[0], vtype{c.sortOf(argTypes[0]), argTypes[0]}}
		}
		bindResults(tr, c, sig, results)
		return tr
	}
	bind := func(cur, old *state, results []string) *trans { return bindC(ct, cur, old, results) }
	// a concrete method reached by a static call is also covered by the interface-level contracts of its interfaces
	all := []*contract{ct}
	if callee != nil && !ct.Interface && callee.Signature.Recv() != nil {
		for _, ic := range vc.w.ifaceContractsFor(callee) {
			if ic != ct {
				all = append(all, ic)
			}
		}
	}
	vc.callCount[label]++
	n := vc.callCount[label]
	short := label
	if i := strings.LastIndex(short, "/"); i >= 0 {
		short = short[i+1:]
	}
	pre := st.clone()
	trPre := bind(pre, pre, nil)
	for ci, cc := range all {
		trP := bindC(cc, pre, pre, nil)
		for k, cl := range cc.clausesFor(vc.layer) {
			if cl.Kind != "requires" {
				continue
			}
			f := vc.trClause(trP, cl)
			nm := fmt.Sprintf("pre@%s#%d.%d", short, n, k+1)
			if ci > 0 {
				nm = fmt.Sprintf("pre@%s#%d.i%d.%d", short, n, ci, k+1)
			}
			vc.addObl(&obligation{Name: nm, Kind: "pre", Goal: and(bc, not(f)), Pos: vc.pos(ins.Pos()), Clause: cl.Src, Inputs: vc.inputTerms()})
			c.assume(implies(bc, f))
		}
	}
	// termination of recursion
	if callee != nil || ct.Interface {
		fr.variantObl(b, st, ins, ct, trPre, short, n, call)
	}
	if ct.externalIn(vc.layer) {
		vc.assumed[ "assumed contract on "+ct.Ref] = true
	}
	if ct.NoReturn {
		c.assume(not(bc))
		if v != nil {
			fr.havocVal(v, st)
		}
		return
	}
	// effects
	var ms *modset
	switch {
	case ct.Pure:
		ms = newModset()
	case len(ct.Modifies) > 0 || ct.externalIn(vc.layer):
		ms = newModset()
		for _, k := range ct.Modifies {
			ms.shape(vc.w.db.modKey(k)).any = true
		}
	case callee != nil && vc.ma.sets[callee] != nil:
		ms = vc.ma.sets[callee]
	case ct.Interface && call != nil:
		ms = newModset()
		fns, _ := vc.ma.callees(call)
		for _, f := range fns {
			if s, ok := vc.ma.sets[f]; ok {
				ms.merge(s)
			}
		}
	default:
		ms = newModset()
	}
	vc.havoc(st, pre, ms, "call "+label, argRoot(args), nil)
	results := fr.freshResults(v, st, sig, "c"+fmt.Sprint(len(vc.obls)))
	for i, r := range results {
		vc.typed(r, sig.Results().At(i).Type(), st)
	}
	for _, cc := range all {
		trPost := bindC(cc, st, pre, results)
		trPost.depth = 0 // the callee's postcondition is used as stated; its spec terms are not unfolded here
		for _, cl := range cc.clausesFor(vc.layer) {
			if cl.Kind != "ensures" {
				continue
			}
			trPost.depth = 0
			if vc.w.db.RevealPost[vc.layer] && cl.Layer == vc.layer {
				trPost.depth = 1 // ... except the layer's own clauses in a layer that asks for it (`reveal LAYER`): facts about the components of a result
			}
			c.assume(implies(bc, vc.trClause(trPost, cl)))
		}
	}
	if ct.Defines != nil && len(results) > 0 && (ct.DefinesLayer == "" || ct.DefinesLayer == vc.layer) {
		trD := bind(pre, pre, results)
		trD.depth = 1
		val, _ := trD.expr(ct.Defines)
		c.assume(implies(bc, fmt.Sprintf("(= %s %s)", results[0], val)))
		vc.assumed["definition: the result of "+ct.Ref+" is the value of "+ct.DefinesSrc+" (the function is deterministic and has no effect on pre-existing objects)"] = true
		if callee != nil {
			if ms := vc.ma.sets[callee]; ms != nil {
				for k := range ms.real {
					if !strings.HasPrefix(k, "G_") {
						c.unsup("defines: " + ct.Ref + " writes " + k)
					}
				}
			}
		}
	}
	vc.lemmaInstances(pre, st, bc)
	// ghost events emitted by the callee (definitional)
	for _, em := range ct.Emits {
		if em.Layer != "" && em.Layer != vc.layer {
			continue // a ghost event recorded for one property's layer only
		}
		key := "G_" + em.Label
		if !vc.ensureKey(key) {
			continue
		}
		trE := bind(st, pre, results)
		val, _ := trE.expr(em.Expr)
		n := c.freshConst(key, c.heapSorts[key])
		c.assume(implies(bc, fmt.Sprintf("(= %s %s)", n, val)))
		st.heap[key] = n
	}
	fr.setResult(v, st, results, sig)
	if v != nil && sig.Results().Len() == 0 {
		fr.vals[v] = "nil"
	}
}

func (fr *frame) variantObl(b *ssa.BasicBlock, st *state, ins ssa.Instruction, ct *contract, trPre *trans, short string, n int, call *ssa.CallCommon) {
	vc := fr.vc
	c := vc.c
	var calleeDec *clause
	for _, cl := range ct.clausesFor(vc.layer) {
		if cl.Kind == "decreases" {
			calleeDec = cl
		}
	}
	if calleeDec == nil {
		return
	}
	// is the callee in the same recursive group as the function under verification?
	if !vc.sameSCC(ct, call) {
		return
	}
	var own *clause
	var ownCt *contract
	for _, oc := range vc.allContracts() {
		for _, cl := range oc.clausesFor(vc.layer) {
			if cl.Kind == "decreases" {
				own, ownCt = cl, oc
			}
		}
	}
	if own == nil {
		vc.addObl(&obligation{Name: fmt.Sprintf("variant/rec@%s#%d", short, n), Kind: "variant", Goal: fr.cond[b], Pos: vc.pos(ins.Pos()), Clause: "recursive call but the caller has no decreases clause", Props: vc.termProps()})
		return
	}
	trOwn := vc.contractTrans(ownCt, vc.fn, nil, vc.entry, vc.entry)
	var callerM, calleeM []string
	c.cardPairs = true
	defer func() { c.cardPairs = false }()
	for _, e := range own.Exprs {
		s, _ := trOwn.expr(e)
		callerM = append(callerM, s)
	}
	for _, e := range calleeDec.Exprs {
		s, _ := trPre.expr(e)
		calleeM = append(calleeM, s)
	}
	dec := lexLess(calleeM, callerM)
	vc.addObl(&obligation{Name: fmt.Sprintf("variant/rec@%s#%d", short, n), Kind: "variant", Goal: and(fr.cond[b], not(dec)), Pos: vc.pos(ins.Pos()),
		Clause: "decreases " + calleeDec.Src + " < " + own.Src, Props: vc.termProps(), Inputs: vc.inputTerms()})
	_ = c
}

// lexLess: a < b lexicographically, all components bounded below by 0.
func lexLess(a, b []string) string {
	n := len(a)
	if len(b) < n {
		n = len(b)
	}
	var alts []string
	for i := 0; i < n; i++ {
		var conj []string
		for j := 0; j < i; j++ {
			conj = append(conj, fmt.Sprintf("(= %s %s)", a[j], b[j]))
		}
		conj = append(conj, fmt.Sprintf("(< %s %s)", a[i], b[i]), fmt.Sprintf("(>= %s 0)", a[i]))
		alts = append(alts, and(conj...))
	}
	return or(alts...)
}

func (vc *funcVC) termProps() []string {
	if len(vc.termP) > 0 {
		return vc.termP
	}
	return vc.props
}

func (vc *funcVC) sameSCC(ct *contract, call *ssa.CallCommon) bool {
	if vc.w.recFuncs == nil {
		vc.w.computeSCCs(vc.ma)
	}
	me := vc.w.sccID[vc.fn]
	if call == nil {
		return false
	}
	fns, _ := vc.ma.callees(call)
	for _, f := range fns {
		if vc.w.sccID[f] == me && vc.w.recFuncs[f] {
			return true
		}
	}
	return false
}

// computeSCCs: Tarjan over the module call graph (static + interface dispatch).
func (w *world) computeSCCs(ma *modAnalysis) {
	w.recFuncs = map[*ssa.Function]bool{}
	w.sccID = map[*ssa.Function]int{}
	index := map[*ssa.Function]int{}
	low := map[*ssa.Function]int{}
	on := map[*ssa.Function]bool{}
	var stack []*ssa.Function
	next, nscc := 0, 0
	succs := func(fn *ssa.Function) []*ssa.Function {
		var out []*ssa.Function
		for _, b := range fn.Blocks {
			for _, ins := range b.Instrs {
				if ci, ok := ins.(ssa.CallInstruction); ok {
					fs, _ := ma.callees(ci.Common())
					for _, f := range fs {
						if _, ok := w.funcs[f.String()]; ok {
							out = append(out, f)
						}
					}
				}
				if mc, ok := ins.(*ssa.MakeClosure); ok {
					out = append(out, mc.Fn.(*ssa.Function))
				}
			}
		}
		return out
	}
	var strong func(v *ssa.Function)
	strong = func(v *ssa.Function) {
		index[v], low[v] = next, next
		next++
		stack = append(stack, v)
		on[v] = true
		self := false
		for _, s := range succs(v) {
			if s == v {
				self = true
			}
			if _, seen := index[s]; !seen {
				strong(s)
				if low[s] < low[v] {
					low[v] = low[s]
				}
			} else if on[s] && index[s] < low[v] {
				low[v] = index[s]
			}
		}
		if low[v] == index[v] {
			nscc++
			var comp []*ssa.Function
			for {
				x := stack[len(stack)-1]
				stack = stack[:len(stack)-1]
				on[x] = false
				comp = append(comp, x)
				w.sccID[x] = nscc
				if x == v {
					break
				}
			}
			if len(comp) > 1 || self {
				for _, x := range comp {
					w.recFuncs[x] = true
				}
			}
		}
	}
	for _, n := range sortedKeys(w.funcs) {
		if _, seen := index[w.funcs[n]]; !seen {
			strong(w.funcs[n])
		}
	}
}

// opaque: a call without contract that is not inlined.
func (fr *frame) opaque(b *ssa.BasicBlock, st *state, ins ssa.Instruction, v ssa.Value, sig *types.Signature, ms *modset, what string, inModule bool, args []string) {
	vc := fr.vc
	pre := st.clone()
	vc.havoc(st, pre, ms, what, argRoot(args), nil)
	if inModule && fr.depth >= maxInlineDepth && !strings.HasPrefix(what, "invoke ") {
		vc.assumed["module "+what+" beyond the inlining depth: does not panic, result unconstrained"] = true
	} else if inModule {
		vc.assumed["uncontracted module "+what+": does not panic, result unconstrained"] = true
		vc.opaqueModule = append(vc.opaqueModule, what)
	} else {
		vc.assumed["external "+what+": no effect on the modelled heap, does not panic, result unconstrained"] = true
	}
	if v != nil {
		fr.havocVal(v, st)
	}
}

func (fr *frame) dynamicCall(b *ssa.BasicBlock, st *state, ins ssa.Instruction, v ssa.Value, call *ssa.CallCommon, args []string) {
	vc := fr.vc
	// closed world (funcvals.go): the callee is one of the module functions of this signature whose value is taken
	// somewhere; the call has the union of their effects. A candidate's precondition cannot be established here (its
	// captured variables are not known), so candidates with a precondition in this layer leave the call unresolved.
	if vc.w.externalFuncValue(call.Value) {
		vc.assumed["external call of the function value "+call.Value.Name()+" (returned by a function of another module): no effect on the modelled heap, does not panic, result unconstrained"] = true
		if v != nil {
			fr.havocVal(v, st)
		}
		return
	}
	if sig, ok := call.Value.Type().Underlying().(*types.Signature); ok {
		if cands, complete := vc.w.funcValueCandidates(sig); complete && len(cands) > 0 {
			ms := newModset()
			okAll := true
			var names []string
			for _, f := range cands {
				names = append(names, f.String())
				if ct := vc.w.db.Contracts[f.String()]; ct != nil {
					for _, cl := range ct.clausesFor(vc.layer) {
						if cl.Kind == "requires" {
							if os.Getenv("GRITSVC_DEBUG_FUNCVALS") != "" {
								fmt.Fprintf(os.Stderr, "funcvals: candidate %s has a precondition in layer %q: %s\n", f.String(), vc.layer, cl.Src)
							}
							okAll = false
						}
					}
				}
				if s, ok := vc.ma.sets[f]; ok {
					ms.merge(retargetAny(s))
				}
			}
			if okAll {
				vc.assumed["closed world: the function value called at "+vc.pos(ins.Pos())+" is one of "+strings.Join(names, ", ")+" (the module functions of that signature used as values); union of their effects, termination and absence of panics not modelled"] = true
				pre := st.clone()
				vc.havoc(st, pre, ms, "call of function value "+call.Value.Name(), nil, nil)
				if v != nil {
					fr.havocVal(v, st)
				}
				return
			}
		}
	}
	if os.Getenv("GRITSVC_DEBUG_FUNCVALS") != "" {
		if sig, ok := call.Value.Type().Underlying().(*types.Signature); ok {
			cands, complete := vc.w.funcValueCandidates(sig)
			fmt.Fprintf(os.Stderr, "funcvals: unresolved %s: %d candidates, complete=%v, type %s\n", call.Value.Name(), len(cands), complete, call.Value.Type())
		} else {
			fmt.Fprintf(os.Stderr, "funcvals: unresolved %s: type %s (%T)\n", call.Value.Name(), call.Value.Type(), call.Value.Type().Underlying())
		}
	}
	vc.c.unsup("call of an unknown function value " + call.Value.Name() + " at " + vc.pos(ins.Pos()))
	if v != nil {
		fr.havocVal(v, st)
	}
}

// retargetAny: a summary whose effects are stated relative to the callee's parameters, restated for a caller that
// does not know the callee: every rooted shape becomes "any object".
func retargetAny(s *modset) *modset {
	out := newModset()
	out.merge(s)
	for _, sh := range out.real {
		if len(sh.roots) > 0 {
			sh.any = true
			sh.roots = map[ssa.Value]bool{}
		}
	}
	return out
}

func (fr *frame) doSpawn(b *ssa.BasicBlock, st *state, x *ssa.Go) {
	// the spawned function's precondition is asserted; its effects are not modelled
	vc := fr.vc
	call := x.Common()
	if f, ok := call.Value.(*ssa.Function); ok {
		if ct := vc.w.db.Contracts[f.String()]; ct != nil {
			var args []string
			var ats []types.Type
			for _, a := range call.Args {
				args = append(args, fr.val(a))
				ats = append(ats, a.Type())
			}
			tmp := st.clone()
			fr.applyContract(b, tmp, x, nil, ct, f, args, ats, call.Signature(), "go "+f.String(), call)
		}
	}
}

func (fr *frame) inlineCall(b *ssa.BasicBlock, st *state, ins ssa.Instruction, v ssa.Value, callee *ssa.Function, args []string, ct *contract, call *ssa.CallCommon) {
	vc := fr.vc
	c := vc.c
	vc.nInl++
	sub := vc.newFrame(callee, fmt.Sprintf("%si%d_", fr.prefix, vc.nInl), fr.depth+1)
	sub.inline = true
	sub.ct = ct
	sub.entryCond = fr.cond[b]
	for i, p := range callee.Params {
		sub.vals[p] = args[i]
	}
	for i, fv := range callee.FreeVars {
		sub.vals[fv] = args[len(callee.Params)+i]
	}
	// local objects of the caller passed as arguments keep their identity inside the inlined body
	if call != nil {
		actuals := callArgs(call)
		for i, p := range callee.Params {
			if i < len(actuals) {
				_, root := vc.ma.valueRoot(actuals[i], map[*ssa.BasicBlock]bool{}, 0)
				if root != nil {
					if ot, ok := fr.objTerm[root]; ok {
						sub.objTerm[p] = ot
					}
				}
			}
		}
	}
	vc.stack = append(vc.stack, callee)
	sub.exec(st)
	vc.stack = vc.stack[:len(vc.stack)-1]
	vc.guard = fr.cond[b]
	// merge exits
	if len(sub.rets) == 0 {
		// never returns (always panics)
		c.assume(not(fr.cond[b]))
		if v != nil {
			fr.havocVal(v, st)
		}
		return
	}
	var conds []string
	var sts []*state
	for _, r := range sub.rets {
		conds = append(conds, r.cond)
		sts = append(sts, r.st)
	}
	merged := fr.mergeStates(conds, sts)
	// paths on which the callee panicked end here
	c.assume(implies(fr.cond[b], or(conds...)))
	*st = *merged
	sig := callee.Signature
	nres := sig.Results().Len()
	var results []string
	for i := 0; i < nres; i++ {
		if len(sub.rets) == 1 {
			results = append(results, sub.rets[0].results[i])
			continue
		}
		n := c.freshConst(sub.prefix+"res", c.sortOf(sig.Results().At(i).Type()))
		for _, r := range sub.rets {
			c.assume(implies(r.cond, fmt.Sprintf("(= %s %s)", n, r.results[i])))
		}
		results = append(results, n)
	}
	fr.setResult(v, st, results, sig)
	// a freshly allocated object returned by the inlined callee is a local object of the caller from now on
	if v != nil && len(sub.rets) == 1 && nres == 1 {
		if ret, ok := sub.rets[0].block.Instrs[len(sub.rets[0].block.Instrs)-1].(*ssa.Return); ok && len(ret.Results) == 1 {
			_, root := vc.ma.valueRoot(ret.Results[0], map[*ssa.BasicBlock]bool{}, 0)
			if root != nil {
				if ot, ok := sub.objTerm[root]; ok {
					fr.objTerm[v] = ot
				}
			}
		}
	}
	for _, n := range sub.notesFromDefers() {
		c.note(n)
	}
}

func (fr *frame) notesFromDefers() []string { return nil }

func (fr *frame) doBuiltin(b *ssa.BasicBlock, st *state, ins ssa.Instruction, bi *ssa.Builtin, call *ssa.CallCommon, v ssa.Value) {
	c := fr.vc.c
	switch bi.Name() {
	case "len":
		a := call.Args[0]
		av := fr.val(a)
		switch a.Type().Underlying().(type) {
		case *types.Slice:
			fr.define(v, fmt.Sprintf("(slen %s)", av))
		case *types.Basic:
			fr.define(v, fmt.Sprintf("(str.len %s)", av))
		case *types.Map:
			_, _, mc := c.mapKeys(a.Type())
			c.cardFactsAt(st, a.Type(), av)
			fr.define(v, fmt.Sprintf("(ite (= %s nil) 0 (select %s %s))", av, c.heapGet(st, mc), av))
		case *types.Chan:
			n := fr.havocVal(v, st)
			c.assume(fmt.Sprintf("(>= %s 0)", n))
		default:
			c.unsup("len of " + a.Type().String())
			fr.havocVal(v, st)
		}
	case "cap":
		n := fr.havocVal(v, st)
		if _, ok := call.Args[0].Type().Underlying().(*types.Slice); ok {
			c.assume(fmt.Sprintf("(>= %s (slen %s))", n, fr.val(call.Args[0])))
		}
	case "append":
		fr.doAppend(b, st, v, call.Args)
	case "delete":
		m, k := fr.val(call.Args[0]), fr.val(call.Args[1])
		// delete(nil, k) is a no-op
		pre := st.clone()
		fr.vc.c.cardFactsAt(st, call.Args[0].Type(), m)
		fr.mapDelete(st, call.Args[0].Type(), m, k)
		md, _, mc := c.mapKeys(call.Args[0].Type())
		for _, key := range []string{md, mc} {
			n := c.freshConst(key, c.heapSorts[key])
			c.assume(fmt.Sprintf("(= %s (ite (= %s nil) %s %s))", n, m, c.heapGet(pre, key), st.heap[key]))
			st.heap[key] = n
		}
		if v != nil {
			fr.vals[v] = "nil"
		}
	case "panic":
		fr.oblPanic(b, "explicit", ins, "true")
		c.assume(not(fr.cond[b]))
	case "print", "println":
	case "copy":
		c.unsup("builtin copy")
		if v != nil {
			fr.havocVal(v, st)
		}
	case "recover":
		if v != nil {
			fr.vals[v] = "nil"
		}
		c.note("recover() modelled as returning nil (panics end the path)")
	case "close":
		c.note("close(chan) abstracted")
	case "min", "max":
		a, bb := fr.val(call.Args[0]), fr.val(call.Args[1])
		if bi.Name() == "min" {
			fr.define(v, fmt.Sprintf("(ite (<= %s %s) %s %s)", a, bb, a, bb))
		} else {
			fr.define(v, fmt.Sprintf("(ite (>= %s %s) %s %s)", a, bb, a, bb))
		}
	default:
		c.unsup("builtin " + bi.Name())
		if v != nil {
			fr.havocVal(v, st)
		}
	}
}

// argRoot maps a callee parameter (a root of its mod-set summary) to the actual argument term.
func argRoot(args []string) func(ssa.Value) (string, bool) {
	return func(v ssa.Value) (string, bool) {
		p, ok := v.(*ssa.Parameter)
		if !ok {
			return "", false
		}
		i := paramIndex(p)
		if i < 0 || i >= len(args) {
			return "", false
		}
		return args[i], true
	}
}

// willInline: the callee is a small contract-less (or explicitly inline) module function that is executed in place.
func (fr *frame) willInline(callee *ssa.Function) bool {
	vc := fr.vc
	ct := vc.w.db.Contracts[callee.String()]
	if ct != nil && !ct.Inline {
		return false
	}
	if ct == nil && callee.Signature.Recv() != nil && len(vc.w.ifaceContractsFor(callee)) > 0 {
		return false
	}
	inMod := callee.Pkg != nil && vc.w.inModule(callee.Pkg.Pkg.Path()) || (callee.Parent() != nil)
	return inMod && callee.Blocks != nil && fr.depth < maxInlineDepth && (!vc.recursive(callee) || (ct != nil && ct.Inline)) && (len(fr.calleeLoops(callee)) == 0 || (ct != nil && ct.Inline)) && !vc.onStack(callee)
}

// callsiteObls: assertions the caller's contract attaches to its N-th call of a given callee.
func (fr *frame) callsiteObls(b *ssa.BasicBlock, st *state, ins ssa.Instruction, call *ssa.CallCommon) {
	vc := fr.vc
	if fr.inline || fr.ct == nil {
		return
	}
	name := ""
	if call.IsInvoke() {
		name = ifaceMethodKey(call.Value.Type(), call.Method.Name())
	} else if f := call.StaticCallee(); f != nil {
		name = f.String()
	} else if _, isB := call.Value.(*ssa.Builtin); !isB {
		// a call through a function value is addressed by the name of the variable holding it
		name = call.Value.Name()
		for _, d := range fr.debug {
			for _, r := range d {
				if r.X == call.Value && !r.IsAddr {
					if id, ok := r.Expr.(*ast.Ident); ok {
						name = id.Name
					}
				}
			}
		}
	} else {
		return
	}
	short := name
	if strings.HasPrefix(short, "(") {
		// (*mod/path/pkg.T).m  ->  (*pkg.T).m
		if i := strings.LastIndex(short, "/"); i >= 0 {
			j := strings.IndexAny(short, "*(")
			for j+1 < len(short) && (short[j+1] == '*' || short[j+1] == '(') {
				j++
			}
			short = short[:j+1] + short[i+1:]
		}
	} else if i := strings.LastIndex(short, "/"); i >= 0 {
		short = short[i+1:]
	}
	vc.siteCount[short]++
	n := vc.siteCount[short]
	for _, cl := range fr.ct.clausesFor(vc.layer) {
		if cl.Kind != "callsite" || cl.Target != short || cl.Loop != n {
			continue
		}
		vc.matchedSites[cl] = true
		tr := fr.loopTrans(&loopInfo{header: b, body: map[*ssa.BasicBlock]bool{}, before: ins}, st, nil)
		// a parameter name denotes the parameter's entry value, also when the call's block merges later assignments
		// to it (the current value is available as argK where it is passed on)
		for name, v := range vc.contractTrans(fr.ct, fr.fn, nil, st, vc.entry).vars {
			tr.vars[name] = v
		}
		// the actual arguments of the call: arg0, arg1, ... (the receiver of a method call is arg0)
		for i, a := range callArgs(call) {
			tr.vars[fmt.Sprintf("arg%d", i)] = tvar{fr.val(a), vtype{vc.c.sortOf(a.Type()), a.Type()}}
		}
		f := vc.trClause(tr, cl)
		vc.addObl(&obligation{Name: fmt.Sprintf("callsite/%s@%s#%d", cl.Label, short, n), Kind: "ensures", Label: cl.Label, Goal: and(fr.cond[b], not(f)),
			Pos: vc.pos(ins.Pos()), Clause: cl.Src, Props: propsOfLabel(cl.Label, vc.props), Inputs: vc.inputTerms()})
		// cover: the call site can be reached under the assumptions made so far (a clause proved on a dead path proves nothing)
		if !vc.coveredSites[ins] {
			vc.coveredSites[ins] = true
			vc.addObl(&obligation{Name: fmt.Sprintf("vacuity/callsite-reachable@%s#%d", short, n), Kind: "vacuity", Goal: fr.cond[b], ExpectSat: true})
		}
		// asserted, then available as a fact on the paths through this call
		vc.c.assume(implies(fr.cond[b], f))
	}
}

// implementsModuleIface: fn is a method of a type that implements a module interface declaring a method of that name
// (so it may be reached by dynamic dispatch).
func (w *world) implementsModuleIface(fn *ssa.Function) bool {
	recv := fn.Signature.Recv()
	if recv == nil {
		return false
	}
	rt := recv.Type()
	if p, ok := rt.(*types.Pointer); ok {
		rt = p.Elem()
	}
	for key, ims := range w.impls {
		for _, im := range ims {
			if !types.Identical(rt, im) {
				continue
			}
			if it := w.ifaceByKey(key); it != nil {
				for i := 0; i < it.NumMethods(); i++ {
					if it.Method(i).Name() == fn.Name() {
						return true
					}
				}
			}
		}
	}
	return false
}

func (w *world) ifaceByKey(key string) *types.Interface {
	i := strings.LastIndex(key, ".")
	if i < 0 {
		return nil
	}
	p := w.pkgs[key[:i]]
	if p == nil {
		return nil
	}
	obj := p.Pkg.Scope().Lookup(key[i+1:])
	if obj == nil {
		return nil
	}
	it, _ := obj.Type().Underlying().(*types.Interface)
	return it
}
