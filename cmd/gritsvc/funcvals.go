package main

import (
	"go/types"
	"sort"

	"golang.org/x/tools/go/ssa"
)

// Function values. A call through a function value (`continuationFunc()`) has no static callee. The module is the
// whole program (closed world: nothing outside it can pass a function into it, apart from the callbacks listed under
// externalFuncValueUsers), so the callee is one of the module functions whose value is taken somewhere - a closure
// creation, or a named function used as an operand rather than called - and whose signature is identical to the
// call's. The effect of such a call is over-approximated by the union of the candidates' effects.

// complete is false when a function outside w.funcs (a bound-method wrapper, a function of another module) of that
// signature is used as a value too: the call is then unresolved.
func (w *world) funcValueCandidates(sig *types.Signature) (out []*ssa.Function, complete bool) {
	if w.takenFuncs == nil {
		w.takenFuncs = map[*ssa.Function]bool{}
		note := func(v ssa.Value) {
			switch f := v.(type) {
			case *ssa.Function:
				w.takenFuncs[f] = true
			case *ssa.MakeClosure:
				w.takenFuncs[f.Fn.(*ssa.Function)] = true
			}
		}
		for _, name := range sortedKeys(w.funcs) {
			fn := w.funcs[name]
			for _, b := range fn.Blocks {
				for _, ins := range b.Instrs {
					if mc, ok := ins.(*ssa.MakeClosure); ok {
						note(mc)
					}
					var ops []*ssa.Value
					ops = ins.Operands(ops)
					skip := ssa.Value(nil)
					if ci, ok := ins.(ssa.CallInstruction); ok && !ci.Common().IsInvoke() {
						skip = ci.Common().Value // the callee position of a static call takes no value
					}
					for _, op := range ops {
						if op == nil || *op == nil {
							continue
						}
						if f, ok := (*op).(*ssa.Function); ok {
							if skip == *op {
								// still a value if it also appears among the arguments
								isArg := false
								for _, a := range ins.(ssa.CallInstruction).Common().Args {
									if a == *op {
										isArg = true
									}
								}
								if !isArg {
									continue
								}
							}
							note(f)
						}
					}
				}
			}
		}
	}
	same := func(fs *types.Signature) bool {
		return types.Identical(types.NewSignatureType(nil, nil, nil, fs.Params(), fs.Results(), fs.Variadic()),
			types.NewSignatureType(nil, nil, nil, sig.Params(), sig.Results(), sig.Variadic()))
	}
	complete = true
	var taken []*ssa.Function
	for fn := range w.takenFuncs {
		taken = append(taken, fn)
	}
	sort.Slice(taken, func(i, j int) bool { return taken[i].String() < taken[j].String() })
	for _, fn := range taken {
		if !same(fn.Signature) {
			continue
		}
		if w.funcs[fn.String()] != fn || fn.Blocks == nil || fn.Signature.Recv() != nil {
			complete = false
			continue
		}
		out = append(out, fn)
	}
	return out, complete
}
