package main

import (
	"fmt"
	"os"
	"go/types"
	"sort"

	"golang.org/x/tools/go/ssa"
)

// Function values. A call through a function value (`continuationFunc()`) has no static callee. The module is the
// whole program (closed world: nothing outside it can pass a function into it, apart from the callbacks listed under
// externalFuncValueUsers), so the callee is one of the module functions whose value is taken somewhere - a closure
// creation, or a named function used as an operand rather than called - and whose signature is identical to the
// call's. The effect of such a call is over-approximated by the union of the candidates' effects.

// complete is false when a function outside w.funcs (a bound-method wrapper, a function of another module) of that
// signature is used as a value too: the call is then unresolved.
func (w *world) funcValueCandidates(sig *types.Signature) (out []*ssa.Function, complete bool) {
	if w.takenFuncs == nil {
		w.takenFuncs = map[*ssa.Function]bool{}
		note := func(v ssa.Value) {
			switch f := v.(type) {
			case *ssa.Function:
				w.takenFuncs[f] = true
			case *ssa.MakeClosure:
				w.takenFuncs[f.Fn.(*ssa.Function)] = true
			}
		}
		for _, name := range sortedKeys(w.funcs) {
			fn := w.funcs[name]
			for _, b := range fn.Blocks {
				for _, ins := range b.Instrs {
					if mc, ok := ins.(*ssa.MakeClosure); ok {
						note(mc)
					}
					if _, ok := ins.(*ssa.DebugRef); ok {
						continue // source-position bookkeeping, not a use
					}
					var ops []*ssa.Value
					ops = ins.Operands(ops)
					skip := ssa.Value(nil)
					if ci, ok := ins.(ssa.CallInstruction); ok && !ci.Common().IsInvoke() {
						skip = ci.Common().Value // the callee position of a static call takes no value
					}
					for _, op := range ops {
						if op == nil || *op == nil {
							continue
						}
						if f, ok := (*op).(*ssa.Function); ok {
							if skip == *op {
								// still a value if it also appears among the arguments
								isArg := false
								for _, a := range ins.(ssa.CallInstruction).Common().Args {
									if a == *op {
										isArg = true
									}
								}
								if !isArg {
									continue
								}
							}
							note(f)
						}
					}
				}
			}
		}
	}
	same := func(fs *types.Signature) bool {
		return types.Identical(types.NewSignatureType(nil, nil, nil, fs.Params(), fs.Results(), fs.Variadic()),
			types.NewSignatureType(nil, nil, nil, sig.Params(), sig.Results(), sig.Variadic()))
	}
	complete = true
	var taken []*ssa.Function
	for fn := range w.takenFuncs {
		taken = append(taken, fn)
	}
	sort.Slice(taken, func(i, j int) bool { return taken[i].String() < taken[j].String() })
	for _, fn := range taken {
		if !same(fn.Signature) {
			continue
		}
		if fn.Pkg != nil && !w.inModule(fn.Pkg.Pkg.Path()) && fn.Synthetic == "" {
			// a function of another module used as a value: calling it is an external call (no effect on the modelled
			// heap, like every external call)
			continue
		}
		if w.funcs[fn.String()] != fn || fn.Blocks == nil || fn.Signature.Recv() != nil {
			if os.Getenv("GRITSVC_DEBUG_FUNCVALS") != "" {
				fmt.Fprintf(os.Stderr, "funcvals: %s is used as a value but is not a module function with a body\n", fn.String())
			}
			complete = false
			continue
		}
		out = append(out, fn)
	}
	return out, complete
}

// externalFuncValue: v is the (component of the) result of a call to a function of another module - a function made
// there (context.WithCancel's cancel). Calling it is an external call.
func (w *world) externalFuncValue(v ssa.Value) bool {
	if ex, ok := v.(*ssa.Extract); ok {
		v = ex.Tuple
	}
	c, ok := v.(*ssa.Call)
	if !ok || c.Call.IsInvoke() {
		return false
	}
	f := c.Call.StaticCallee()
	return f != nil && f.Pkg != nil && !w.inModule(f.Pkg.Pkg.Path())
}
