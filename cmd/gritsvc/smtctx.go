package main

// smtctx: one SMT problem under construction (declarations, assumptions) + symbolic heap state.

import (
	"regexp"
	"sync"
	"fmt"
	"go/types"
	"sort"
	"strings"
)

// heapBase: the current version of a heap array differs from `term` only inside the objects `objs`, which
// were allocated by the function under verification and had not escaped when they were written.
type baseObj struct {
	term string     // oid term
	typ  types.Type // allocated type (struct/array type, or the element type of a slice backing store)
	// escaped: the object's address was handed out before the write. Cells of such an object can be reachable from
	// the heap, so a spec application is independent of them only if no pointer type reachable from the types of its
	// arguments can point into an object of this type (typeReaches).
	escaped bool
	backing bool // the object is the backing store of a slice (its cells are elements of type typ)
}

type heapBase struct {
	term string
	objs []baseObj
}

type state struct {
	heap   map[string]string // heap key -> current term; a missing key denotes the entry version
	alloc  string            // allocation counter (Int term)
	locals map[string]string // register-allocated local cells: alloc key -> value term
	base   map[string]heapBase
}

func (s *state) clone() *state {
	n := &state{heap: make(map[string]string, len(s.heap)), alloc: s.alloc, locals: make(map[string]string, len(s.locals)), base: make(map[string]heapBase, len(s.base))}
	for k, v := range s.base {
		n.base[k] = heapBase{v.term, append([]baseObj{}, v.objs...)}
	}
	for k, v := range s.heap {
		n.heap[k] = v
	}
	for k, v := range s.locals {
		n.locals[k] = v
	}
	return n
}

type smtctx struct {
	cardPairs bool // translating a decreases clause: relate the cardinalities of the maps it mentions
	cardTerms map[string][][2]string
	w             *world
	declaredSorts map[string]bool
	sortDecls     []string
	declared      map[string]bool
	decls         []string
	heapSorts     map[string]string
	assumes       []string
	fresh         int
	notes         []string        // abstractions applied ("go statement abstracted", ...)
	unsupported   []string        // constructs outside the subset (the function is then not counted as proved)
	specDeclared  map[string]bool // spec function symbols declared
	unfolded      map[string]bool // spec instances already unfolded
	usedSpecs     map[string]bool
	usedAxioms    map[string]bool
	sortTypes     map[string]types.Type
	wfAxioms      []string // heap well-formedness facts per version (only added to scripts when a frame guard needs them)
	needWF        bool
	declSyms      map[string]bool
	declSymsN     int
	assumeSyms    map[int][]string
	sliceMu       sync.Mutex
	constLen      map[string]int // slice terms of statically known small length
	objNames      map[string]bool // terms known to denote whole objects (allocation results)
}

func newSMT(w *world) *smtctx {
	return &smtctx{w: w, declaredSorts: map[string]bool{}, declared: map[string]bool{}, heapSorts: map[string]string{},
		specDeclared: map[string]bool{}, unfolded: map[string]bool{}, usedSpecs: map[string]bool{}, usedAxioms: map[string]bool{}, objNames: map[string]bool{}}
}

func (c *smtctx) declConst(name, sort string) string {
	if !c.declared[name] {
		c.declared[name] = true
		c.decls = append(c.decls, fmt.Sprintf("(declare-const %s %s)", name, sort))
	}
	return name
}

func (c *smtctx) declFun(name string, args []string, ret string) {
	if !c.declared[name] {
		c.declared[name] = true
		c.decls = append(c.decls, fmt.Sprintf("(declare-fun %s (%s) %s)", name, strings.Join(args, " "), ret))
	}
}

func (c *smtctx) freshConst(prefix, sort string) string {
	c.fresh++
	return c.declConst(fmt.Sprintf("%s!%d", prefix, c.fresh), sort)
}

func (c *smtctx) assume(f string) {
	if f == "" || f == "true" {
		return
	}
	c.assumes = append(c.assumes, f)
}

func (c *smtctx) note(s string) {
	for _, n := range c.notes {
		if n == s {
			return
		}
	}
	c.notes = append(c.notes, s)
}

func (c *smtctx) unsup(s string) {
	for _, n := range c.unsupported {
		if n == s {
			return
		}
	}
	c.unsupported = append(c.unsupported, s)
}

// ---- heap keys

// Heap arrays. A struct field lives in the array of that field ("F_<struct>_<field>", indexed by the field's
// address); every other cell (slice/array elements, boxed variables) lives in the array of its Go type
// ("H_<type>"). Which array a cell belongs to is determined by the shape of its address.

// cellKey returns the heap array holding non-field cells of leaf type t and makes sure its sort is known.
func (c *smtctx) cellKey(t types.Type) string {
	k := heapKey(t)
	if _, ok := c.heapSorts[k]; !ok {
		c.heapSorts[k] = fmt.Sprintf("(Array Ref %s)", c.sortOf(t))
	}
	return k
}

// fieldKeyByID returns the heap array of a struct field.
func (c *smtctx) fieldKeyByID(fid int) (string, types.Type, bool) {
	fi, ok := c.w.fieldByID[fid]
	if !ok {
		return "", nil, false
	}
	if _, ok := c.heapSorts[fi.key]; !ok {
		c.heapSorts[fi.key] = fmt.Sprintf("(Array Ref %s)", c.sortOf(fi.typ))
	}
	return fi.key, fi.typ, true
}

// candidateFieldKeys: the field arrays that can hold a cell of leaf type t (for accesses through a pointer whose
// provenance is unknown).
func (c *smtctx) candidateFieldKeys(t types.Type) []int {
	var out []int
	for _, fid := range c.w.fieldIDsSorted() {
		fi := c.w.fieldByID[fid]
		if isLeaf(fi.typ) && types.Identical(fi.typ, t) {
			out = append(out, fid)
		}
	}
	return out
}

// addrShape classifies an address term: "fld" (with the field id), "cell" (element or object), "" (unknown).
func (c *smtctx) addrShape(a string) (string, int) {
	if strings.HasPrefix(a, "(fld ") {
		i := strings.LastIndex(a, " ")
		var fid int
		if _, err := fmt.Sscanf(a[i+1:], "%d)", &fid); err == nil {
			return "fld", fid
		}
	}
	if strings.HasPrefix(a, "(selem ") || strings.HasPrefix(a, "(elem ") {
		return "cell", 0
	}
	if c.objNames[a] {
		return "cell", 0
	}
	return "", 0
}

// leafKeys: the arrays in which the leaf cell of type t at address a may live: a single key when the address shape
// is known, otherwise all candidates with the condition selecting each.
type keyAlt struct {
	key  string
	cond string // "" = unconditional
}

func (c *smtctx) leafKeys(a string, t types.Type) []keyAlt {
	switch shape, fid := c.addrShape(a); shape {
	case "fld":
		if k, _, ok := c.fieldKeyByID(fid); ok {
			return []keyAlt{{k, ""}}
		}
	case "cell":
		return []keyAlt{{c.cellKey(t), ""}}
	}
	var alts []keyAlt
	var conds []string
	for _, fid := range c.candidateFieldKeys(t) {
		k, _, _ := c.fieldKeyByID(fid)
		cond := fmt.Sprintf("(and (is_fld %s) (= (fid %s) %d))", a, a, fid)
		alts = append(alts, keyAlt{k, cond})
		conds = append(conds, cond)
	}
	alts = append(alts, keyAlt{c.cellKey(t), not(or(conds...))})
	return alts
}

func mapKeyBase(t types.Type) string {
	return mangle(types.TypeString(t, func(p *types.Package) string { return p.Name() }))
}

// mapKeys returns the three heap keys (domain, values, cardinality) of a Go map type.
func (c *smtctx) mapKeys(t types.Type) (md, mv, mc string) {
	mt := t.Underlying().(*types.Map)
	b := mapKeyBase(t)
	md, mv, mc = "MD_"+b, "MV_"+b, "MC_"+b
	ks, vs := c.sortOf(mt.Key()), c.sortOf(mt.Elem())
	c.heapSorts[md] = fmt.Sprintf("(Array Ref (Array %s Bool))", ks)
	c.heapSorts[mv] = fmt.Sprintf("(Array Ref (Array %s %s))", ks, vs)
	c.heapSorts[mc] = "(Array Ref Int)"
	return
}

func (c *smtctx) entrySym(key string) string {
	srt, ok := c.heapSorts[key]
	if !ok {
		panic("heap key without sort: " + key)
	}
	n := key + "!0"
	if !c.declared[n] {
		c.declConst(n, srt)
		c.heapWF(n, srt, "A!0")
	}
	return n
}

// heapWF: a cell of an object that exists holds only references to objects that exist (no reference to an
// object allocated after the allocation counter `alloc` of the state in which the version is current).
func (c *smtctx) heapWF(version, srt, alloc string) {
	switch srt {
	case "(Array Ref Ref)":
		c.wfAxioms = append(c.wfAxioms, fmt.Sprintf("(forall ((wf!a Ref)) (! (=> (< (born wf!a) %s) (< (born (select %s wf!a)) %s)) :pattern ((select %s wf!a))))", alloc, version, alloc, version))
	case "(Array Ref Slice)":
		c.wfAxioms = append(c.wfAxioms, fmt.Sprintf("(forall ((wf!a Ref)) (! (=> (< (born wf!a) %s) (< (born (sdata (select %s wf!a))) %s)) :pattern ((select %s wf!a))))", alloc, version, alloc, version))
	}
}

func (c *smtctx) heapGet(st *state, key string) string {
	if t, ok := st.heap[key]; ok {
		return t
	}
	return c.entrySym(key)
}

// ---- leaves of a type (for whole-struct loads and stores)

type leafPath struct {
	fids []int      // field ids from the outer struct inwards
	typ  types.Type // leaf type
	sels []string   // datatype selectors along the path
}

func (c *smtctx) leaves(t types.Type) []leafPath {
	var out []leafPath
	var rec func(t types.Type, fids []int, sels []string)
	rec = func(t types.Type, fids []int, sels []string) {
		if st, ok := t.Underlying().(*types.Struct); ok {
			sn := c.structSort(t)
			for i := 0; i < st.NumFields(); i++ {
				f := st.Field(i)
				rec(f.Type(), append(append([]int{}, fids...), c.w.fieldID(t, i)), append(append([]string{}, sels...), sn+"_"+mangle(f.Name())))
			}
			return
		}
		out = append(out, leafPath{fids: fids, typ: t, sels: sels})
	}
	rec(t, nil, nil)
	return out
}

func addrPath(base string, fids []int) string {
	a := base
	for _, f := range fids {
		a = fmt.Sprintf("(fld %s %d)", a, f)
	}
	return a
}

func applySels(v string, sels []string) string {
	for _, s := range sels {
		v = fmt.Sprintf("(%s %s)", s, v)
	}
	return v
}

// loadAt reads a value of Go type t stored at address a.
func (c *smtctx) loadAt(st *state, a string, t types.Type) string {
	switch u := t.Underlying().(type) {
	case *types.Struct:
		sn := c.structSort(t)
		if u.NumFields() == 0 {
			return "mk_" + sn
		}
		var fs []string
		for i := 0; i < u.NumFields(); i++ {
			fs = append(fs, c.loadAt(st, fmt.Sprintf("(fld %s %d)", a, c.w.fieldID(t, i)), u.Field(i).Type()))
		}
		return fmt.Sprintf("(mk_%s %s)", sn, strings.Join(fs, " "))
	case *types.Array:
		c.unsup("load of array value " + t.String())
		return c.freshConst("arr", c.sortOf(t))
	}
	alts := c.leafKeys(a, t)
	if len(alts) == 1 {
		return fmt.Sprintf("(select %s %s)", c.heapGet(st, alts[0].key), a)
	}
	res := fmt.Sprintf("(select %s %s)", c.heapGet(st, alts[len(alts)-1].key), a)
	for i := len(alts) - 2; i >= 0; i-- {
		res = fmt.Sprintf("(ite %s (select %s %s) %s)", alts[i].cond, c.heapGet(st, alts[i].key), a, res)
	}
	return res
}

// storeAt writes value v of Go type t at address a.
func (c *smtctx) storeAt(st *state, a string, t types.Type, v string) {
	switch u := t.Underlying().(type) {
	case *types.Struct:
		sn := c.structSort(t)
		for i := 0; i < u.NumFields(); i++ {
			c.storeAt(st, fmt.Sprintf("(fld %s %d)", a, c.w.fieldID(t, i)), u.Field(i).Type(), fmt.Sprintf("(%s_%s %s)", sn, mangle(u.Field(i).Name()), v))
		}
		return
	case *types.Array:
		c.unsup("store of array value " + t.String())
		return
	}
	for _, alt := range c.leafKeys(a, t) {
		H := c.heapGet(st, alt.key)
		if alt.cond == "" {
			st.heap[alt.key] = fmt.Sprintf("(store %s %s %s)", H, a, v)
		} else {
			st.heap[alt.key] = fmt.Sprintf("(ite %s (store %s %s %s) %s)", alt.cond, H, a, v, H)
		}
	}
}

// ---- prelude and script assembly

const preludeFixed = `(declare-datatypes ((Path 0)) (((pnil) (pfld (pbase Path) (pfid Int)) (pelem (pebase Path) (pidx Int)))))
(declare-datatypes ((Ref 0)) (((nil) (loc (root Int) (path Path)))))
(declare-datatypes ((Slice 0)) (((mk-slice (sdata Ref) (soff Int) (slen Int)))))
(define-fun obj ((n Int)) Ref (loc n pnil))
(declare-fun fld (Ref Int) Ref)
(assert (forall ((b Ref) (f Int)) (! (= (fld b f) (loc (root b) (pfld (path b) f))) :pattern ((fld b f)))))
(declare-fun elem (Ref Int) Ref)
(assert (forall ((b Ref) (i Int)) (! (= (elem b i) (loc (root b) (pelem (path b) i))) :pattern ((elem b i)))))
(define-fun born ((r Ref)) Int (ite ((_ is nil) r) (- 1) (root r)))
(define-fun is_obj ((r Ref)) Bool (and ((_ is loc) r) ((_ is pnil) (path r))))
(define-fun is_fld ((r Ref)) Bool (and ((_ is loc) r) ((_ is pfld) (path r))))
(define-fun is_elem ((r Ref)) Bool (and ((_ is loc) r) ((_ is pelem) (path r))))
(define-fun fid ((r Ref)) Int (pfid (path r)))
(define-fun oid ((r Ref)) Int (root r))
(declare-fun tyof (Ref) Int)
(declare-fun selem (Slice Int) Ref)
(assert (forall ((s Slice) (i Int)) (! (= (selem s i) (elem (sdata s) (+ (soff s) i))) :pattern ((selem s i)))))
(assert (= (tyof nil) 0))
(declare-fun rune2str (Int) String)
(declare-fun int2str (Int) String)
`

const selemAxiom = "(declare-fun selem (Slice Int) Ref)\n(assert (forall ((s Slice) (i Int)) (! (= (selem s i) (elem (sdata s) (+ (soff s) i))) :pattern ((selem s i)))))\n"
const fldAxiom = "(declare-fun fld (Ref Int) Ref)\n(assert (forall ((b Ref) (f Int)) (! (= (fld b f) (loc (root b) (pfld (path b) f))) :pattern ((fld b f)))))\n(declare-fun elem (Ref Int) Ref)\n(assert (forall ((b Ref) (i Int)) (! (= (elem b i) (loc (root b) (pelem (path b) i))) :pattern ((elem b i)))))\n"
const fldDef = "(define-fun fld ((b Ref) (f Int)) Ref (loc (root b) (pfld (path b) f)))\n(define-fun elem ((b Ref) (i Int)) Ref (loc (root b) (pelem (path b) i)))\n"
const selemDef = "(define-fun selem ((s Slice) (i Int)) Ref (elem (sdata s) (+ (soff s) i)))\n"

// script assembles the SMT-LIB text. For satisfiability (vacuity) queries selem is a plain definition, which
// keeps the prelude quantifier-free; for validity queries it is an uninterpreted function with a
// definitional axiom, which gives E-matching good triggers.
func (c *smtctx) script(nAssume int, goal string, getValues []string) string {
	return c.scriptMode(nAssume, goal, getValues, false)
}

func (c *smtctx) scriptMode(nAssume int, goal string, getValues []string, satQuery bool) string {
	var sb strings.Builder
	if satQuery {
		p := strings.Replace(preludeFixed, selemAxiom, selemDef, 1)
		p = strings.Replace(p, fldAxiom, fldDef, 1)
		sb.WriteString(p)
	} else {
		sb.WriteString(preludeFixed)
	}
	for _, d := range c.sortDecls {
		sb.WriteString(d)
		sb.WriteString("\n")
	}
	for _, d := range c.decls {
		sb.WriteString(d)
		sb.WriteString("\n")
	}
	if nAssume > len(c.assumes) {
		nAssume = len(c.assumes)
	}
	if c.needWF {
		for _, a := range c.wfAxioms {
			sb.WriteString("(assert ")
			sb.WriteString(a)
			sb.WriteString(")\n")
		}
	}
	for _, a := range c.assumes[:nAssume] {
		sb.WriteString("(assert ")
		sb.WriteString(a)
		sb.WriteString(")\n")
	}
	sb.WriteString("(assert ")
	sb.WriteString(goal)
	sb.WriteString(")\n(check-sat)\n")
	if len(getValues) > 0 {
		sb.WriteString("(get-value (" + strings.Join(getValues, " ") + "))\n")
	}
	return sb.String()
}

// ---- sliced queries
//
// Dropping assumptions is sound for a validity query (what is unsatisfiable with fewer assumptions is unsatisfiable
// with all of them). Large functions produce contexts of several megabytes in which the solvers lose the few facts
// a goal needs; a slice keeps the assumptions connected to the goal through declared symbols, up to a given number
// of rounds.

var symRe = regexp.MustCompile(`[A-Za-z_][A-Za-z0-9_!.$]*`)

func (c *smtctx) declaredSymbols() map[string]bool {
	if c.declSyms != nil && c.declSymsN == len(c.decls) {
		return c.declSyms
	}
	m := map[string]bool{}
	for _, d := range c.decls {
		if strings.HasPrefix(d, "(declare-const ") || strings.HasPrefix(d, "(declare-fun ") {
			f := strings.Fields(d)
			if len(f) >= 2 {
				m[f[1]] = true
			}
		}
	}
	c.declSyms, c.declSymsN = m, len(c.decls)
	return m
}

func (c *smtctx) symbolsOf(idx int) []string {
	if c.assumeSyms == nil {
		c.assumeSyms = map[int][]string{}
	}
	if s, ok := c.assumeSyms[idx]; ok {
		return s
	}
	decl := c.declaredSymbols()
	seen := map[string]bool{}
	var out []string
	for _, m := range symRe.FindAllString(c.assumes[idx], -1) {
		if decl[m] && !seen[m] {
			seen[m] = true
			out = append(out, m)
		}
	}
	c.assumeSyms[idx] = out
	return out
}

// slicedScript: the goal with the assumptions (among the first nAssume) reachable from it in `rounds` rounds of
// symbol sharing. ok is false when the slice is not smaller than the whole.
func (c *smtctx) slicedScript(nAssume int, goal string, rounds int) (string, bool) {
	c.sliceMu.Lock()
	defer c.sliceMu.Unlock()
	if nAssume > len(c.assumes) {
		nAssume = len(c.assumes)
	}
	decl := c.declaredSymbols()
	// symbols that occur in a large share of the assumptions (the receiver, the entry heap arrays, the entry block)
	// connect everything with everything: they do not link
	freq := map[string]int{}
	for i := 0; i < nAssume; i++ {
		for _, s := range c.symbolsOf(i) {
			freq[s]++
		}
	}
	limit := nAssume / 40
	if limit < 12 {
		limit = 12
	}
	have := map[string]bool{}
	for _, m := range symRe.FindAllString(goal, -1) {
		if decl[m] && freq[m] <= limit {
			have[m] = true
		}
	}
	in := make([]bool, nAssume)
	count := 0
	for r := 0; r < rounds; r++ {
		var add []string
		for i := 0; i < nAssume; i++ {
			if in[i] {
				continue
			}
			syms := c.symbolsOf(i)
			hit := len(syms) == 0 // closed axioms (no declared symbol) are cheap and always kept
			for _, s := range syms {
				if have[s] {
					hit = true
					break
				}
			}
			if hit {
				in[i] = true
				count++
				for _, s := range syms {
					if freq[s] <= limit {
						add = append(add, s)
					}
				}
			}
		}
		for _, s := range add {
			have[s] = true
		}
	}
	if count*10 >= nAssume*9 {
		return "", false
	}
	var sb strings.Builder
	sb.WriteString(preludeFixed)
	for _, d := range c.sortDecls {
		sb.WriteString(d)
		sb.WriteString("\n")
	}
	for _, d := range c.decls {
		sb.WriteString(d)
		sb.WriteString("\n")
	}
	if c.needWF {
		for _, a := range c.wfAxioms {
			sb.WriteString("(assert " + a + ")\n")
		}
	}
	for i := 0; i < nAssume; i++ {
		if in[i] {
			sb.WriteString("(assert " + c.assumes[i] + ")\n")
		}
	}
	sb.WriteString("(assert " + goal + ")\n(check-sat)\n")
	return sb.String(), true
}

func sortedKeys[V any](m map[string]V) []string {
	var ks []string
	for k := range m {
		ks = append(ks, k)
	}
	sort.Strings(ks)
	return ks
}

func smtInt(n int64) string {
	if n < 0 {
		return fmt.Sprintf("(- %d)", -n)
	}
	return fmt.Sprintf("%d", n)
}

func smtString(s string) string {
	var sb strings.Builder
	sb.WriteByte('"')
	for _, r := range s {
		switch {
		case r == '"':
			sb.WriteString(`""`)
		case r < 32 || r > 126 || r == '\\':
			sb.WriteString(fmt.Sprintf("\\u{%x}", r))
		default:
			sb.WriteRune(r)
		}
	}
	sb.WriteByte('"')
	return sb.String()
}

func and(xs ...string) string {
	var ys []string
	for _, x := range xs {
		if x == "" || x == "true" {
			continue
		}
		if x == "false" {
			return "false"
		}
		ys = append(ys, x)
	}
	switch len(ys) {
	case 0:
		return "true"
	case 1:
		return ys[0]
	}
	return "(and " + strings.Join(ys, " ") + ")"
}

func or(xs ...string) string {
	var ys []string
	for _, x := range xs {
		if x == "" || x == "false" {
			continue
		}
		if x == "true" {
			return "true"
		}
		ys = append(ys, x)
	}
	switch len(ys) {
	case 0:
		return "false"
	case 1:
		return ys[0]
	}
	return "(or " + strings.Join(ys, " ") + ")"
}

func not(x string) string {
	switch x {
	case "true":
		return "false"
	case "false":
		return "true"
	}
	return "(not " + x + ")"
}

func implies(a, b string) string {
	if a == "true" {
		return b
	}
	if b == "true" || a == "false" {
		return "true"
	}
	return "(=> " + a + " " + b + ")"
}
