package main

// smtctx: one SMT problem under construction (declarations, assumptions) + symbolic heap state.

import (
	"fmt"
	"go/types"
	"sort"
	"strings"
)

// heapBase: the current version of a heap array differs from `term` only inside the objects `objs`, which
// were allocated by the function under verification and had not escaped when they were written.
type baseObj struct {
	term string     // oid term
	typ  types.Type // allocated type (struct/array type, or the element type of a slice backing store)
}

type heapBase struct {
	term string
	objs []baseObj
}

type state struct {
	heap   map[string]string // heap key -> current term; a missing key denotes the entry version
	alloc  string            // allocation counter (Int term)
	locals map[string]string // register-allocated local cells: alloc key -> value term
	base   map[string]heapBase
}

func (s *state) clone() *state {
	n := &state{heap: make(map[string]string, len(s.heap)), alloc: s.alloc, locals: make(map[string]string, len(s.locals)), base: make(map[string]heapBase, len(s.base))}
	for k, v := range s.base {
		n.base[k] = heapBase{v.term, append([]baseObj{}, v.objs...)}
	}
	for k, v := range s.heap {
		n.heap[k] = v
	}
	for k, v := range s.locals {
		n.locals[k] = v
	}
	return n
}

type smtctx struct {
	w             *world
	declaredSorts map[string]bool
	sortDecls     []string
	declared      map[string]bool
	decls         []string
	heapSorts     map[string]string
	assumes       []string
	fresh         int
	notes         []string        // abstractions applied ("go statement abstracted", ...)
	unsupported   []string        // constructs outside the subset (the function is then not counted as proved)
	specDeclared  map[string]bool // spec function symbols declared
	unfolded      map[string]bool // spec instances already unfolded
	usedSpecs     map[string]bool
	usedAxioms    map[string]bool
	sortTypes     map[string]types.Type
}

func newSMT(w *world) *smtctx {
	return &smtctx{w: w, declaredSorts: map[string]bool{}, declared: map[string]bool{}, heapSorts: map[string]string{},
		specDeclared: map[string]bool{}, unfolded: map[string]bool{}, usedSpecs: map[string]bool{}, usedAxioms: map[string]bool{}}
}

func (c *smtctx) declConst(name, sort string) string {
	if !c.declared[name] {
		c.declared[name] = true
		c.decls = append(c.decls, fmt.Sprintf("(declare-const %s %s)", name, sort))
	}
	return name
}

func (c *smtctx) declFun(name string, args []string, ret string) {
	if !c.declared[name] {
		c.declared[name] = true
		c.decls = append(c.decls, fmt.Sprintf("(declare-fun %s (%s) %s)", name, strings.Join(args, " "), ret))
	}
}

func (c *smtctx) freshConst(prefix, sort string) string {
	c.fresh++
	return c.declConst(fmt.Sprintf("%s!%d", prefix, c.fresh), sort)
}

func (c *smtctx) assume(f string) {
	if f == "" || f == "true" {
		return
	}
	c.assumes = append(c.assumes, f)
}

func (c *smtctx) note(s string) {
	for _, n := range c.notes {
		if n == s {
			return
		}
	}
	c.notes = append(c.notes, s)
}

func (c *smtctx) unsup(s string) {
	for _, n := range c.unsupported {
		if n == s {
			return
		}
	}
	c.unsupported = append(c.unsupported, s)
}

// ---- heap keys

// cellKey returns the heap array holding cells of leaf type t and makes sure its sort is known.
func (c *smtctx) cellKey(t types.Type) string {
	k := heapKey(t)
	if _, ok := c.heapSorts[k]; !ok {
		c.heapSorts[k] = fmt.Sprintf("(Array Ref %s)", c.sortOf(t))
	}
	return k
}

func mapKeyBase(t types.Type) string {
	return mangle(types.TypeString(t, func(p *types.Package) string { return p.Name() }))
}

// mapKeys returns the three heap keys (domain, values, cardinality) of a Go map type.
func (c *smtctx) mapKeys(t types.Type) (md, mv, mc string) {
	mt := t.Underlying().(*types.Map)
	b := mapKeyBase(t)
	md, mv, mc = "MD_"+b, "MV_"+b, "MC_"+b
	ks, vs := c.sortOf(mt.Key()), c.sortOf(mt.Elem())
	c.heapSorts[md] = fmt.Sprintf("(Array Ref (Array %s Bool))", ks)
	c.heapSorts[mv] = fmt.Sprintf("(Array Ref (Array %s %s))", ks, vs)
	c.heapSorts[mc] = "(Array Ref Int)"
	return
}

func (c *smtctx) entrySym(key string) string {
	srt, ok := c.heapSorts[key]
	if !ok {
		panic("heap key without sort: " + key)
	}
	n := key + "!0"
	if !c.declared[n] {
		c.declConst(n, srt)
		c.heapWF(n, srt, "A!0")
	}
	return n
}

// heapWF: a cell of an object that exists holds only references to objects that exist (no reference to an
// object allocated after the allocation counter `alloc` of the state in which the version is current).
func (c *smtctx) heapWF(version, srt, alloc string) {
	switch srt {
	case "(Array Ref Ref)":
		c.assume(fmt.Sprintf("(forall ((wf!a Ref)) (! (=> (< (born wf!a) %s) (< (born (select %s wf!a)) %s)) :pattern ((select %s wf!a))))", alloc, version, alloc, version))
	case "(Array Ref Slice)":
		c.assume(fmt.Sprintf("(forall ((wf!a Ref)) (! (=> (< (born wf!a) %s) (< (born (sdata (select %s wf!a))) %s)) :pattern ((select %s wf!a))))", alloc, version, alloc, version))
	}
}

func (c *smtctx) heapGet(st *state, key string) string {
	if t, ok := st.heap[key]; ok {
		return t
	}
	return c.entrySym(key)
}

// ---- leaves of a type (for whole-struct loads and stores)

type leafPath struct {
	fids []int      // field ids from the outer struct inwards
	typ  types.Type // leaf type
	sels []string   // datatype selectors along the path
}

func (c *smtctx) leaves(t types.Type) []leafPath {
	var out []leafPath
	var rec func(t types.Type, fids []int, sels []string)
	rec = func(t types.Type, fids []int, sels []string) {
		if st, ok := t.Underlying().(*types.Struct); ok {
			sn := c.structSort(t)
			for i := 0; i < st.NumFields(); i++ {
				f := st.Field(i)
				rec(f.Type(), append(append([]int{}, fids...), c.w.fieldID(t, i)), append(append([]string{}, sels...), sn+"_"+mangle(f.Name())))
			}
			return
		}
		out = append(out, leafPath{fids: fids, typ: t, sels: sels})
	}
	rec(t, nil, nil)
	return out
}

func addrPath(base string, fids []int) string {
	a := base
	for _, f := range fids {
		a = fmt.Sprintf("(fld %s %d)", a, f)
	}
	return a
}

func applySels(v string, sels []string) string {
	for _, s := range sels {
		v = fmt.Sprintf("(%s %s)", s, v)
	}
	return v
}

// loadAt reads a value of Go type t stored at address a.
func (c *smtctx) loadAt(st *state, a string, t types.Type) string {
	switch u := t.Underlying().(type) {
	case *types.Struct:
		sn := c.structSort(t)
		if u.NumFields() == 0 {
			return "mk_" + sn
		}
		var fs []string
		for i := 0; i < u.NumFields(); i++ {
			fs = append(fs, c.loadAt(st, fmt.Sprintf("(fld %s %d)", a, c.w.fieldID(t, i)), u.Field(i).Type()))
		}
		return fmt.Sprintf("(mk_%s %s)", sn, strings.Join(fs, " "))
	case *types.Array:
		c.unsup("load of array value " + t.String())
		return c.freshConst("arr", c.sortOf(t))
	}
	return fmt.Sprintf("(select %s %s)", c.heapGet(st, c.cellKey(t)), a)
}

// storeAt writes value v of Go type t at address a.
func (c *smtctx) storeAt(st *state, a string, t types.Type, v string) {
	switch u := t.Underlying().(type) {
	case *types.Struct:
		sn := c.structSort(t)
		for i := 0; i < u.NumFields(); i++ {
			c.storeAt(st, fmt.Sprintf("(fld %s %d)", a, c.w.fieldID(t, i)), u.Field(i).Type(), fmt.Sprintf("(%s_%s %s)", sn, mangle(u.Field(i).Name()), v))
		}
		return
	case *types.Array:
		c.unsup("store of array value " + t.String())
		return
	}
	k := c.cellKey(t)
	st.heap[k] = fmt.Sprintf("(store %s %s %s)", c.heapGet(st, k), a, v)
}

// ---- prelude and script assembly

const preludeFixed = `(declare-datatypes ((Path 0)) (((pnil) (pfld (pbase Path) (pfid Int)) (pelem (pebase Path) (pidx Int)))))
(declare-datatypes ((Ref 0)) (((nil) (loc (root Int) (path Path)))))
(declare-datatypes ((Slice 0)) (((mk-slice (sdata Ref) (soff Int) (slen Int)))))
(define-fun obj ((n Int)) Ref (loc n pnil))
(define-fun fld ((b Ref) (f Int)) Ref (loc (root b) (pfld (path b) f)))
(define-fun elem ((b Ref) (i Int)) Ref (loc (root b) (pelem (path b) i)))
(define-fun born ((r Ref)) Int (ite ((_ is nil) r) (- 1) (root r)))
(define-fun is_obj ((r Ref)) Bool (and ((_ is loc) r) ((_ is pnil) (path r))))
(define-fun is_fld ((r Ref)) Bool (and ((_ is loc) r) ((_ is pfld) (path r))))
(define-fun is_elem ((r Ref)) Bool (and ((_ is loc) r) ((_ is pelem) (path r))))
(define-fun fid ((r Ref)) Int (pfid (path r)))
(define-fun oid ((r Ref)) Int (root r))
(declare-fun tyof (Ref) Int)
(declare-fun selem (Slice Int) Ref)
(assert (forall ((s Slice) (i Int)) (! (= (selem s i) (elem (sdata s) (+ (soff s) i))) :pattern ((selem s i)))))
(assert (= (tyof nil) 0))
(declare-fun rune2str (Int) String)
(declare-fun int2str (Int) String)
`

const selemAxiom = "(declare-fun selem (Slice Int) Ref)\n(assert (forall ((s Slice) (i Int)) (! (= (selem s i) (elem (sdata s) (+ (soff s) i))) :pattern ((selem s i)))))\n"
const selemDef = "(define-fun selem ((s Slice) (i Int)) Ref (elem (sdata s) (+ (soff s) i)))\n"

// script assembles the SMT-LIB text. For satisfiability (vacuity) queries selem is a plain definition, which
// keeps the prelude quantifier-free; for validity queries it is an uninterpreted function with a
// definitional axiom, which gives E-matching good triggers.
func (c *smtctx) script(nAssume int, goal string, getValues []string) string {
	return c.scriptMode(nAssume, goal, getValues, false)
}

func (c *smtctx) scriptMode(nAssume int, goal string, getValues []string, satQuery bool) string {
	var sb strings.Builder
	if satQuery {
		sb.WriteString(strings.Replace(preludeFixed, selemAxiom, selemDef, 1))
	} else {
		sb.WriteString(preludeFixed)
	}
	for _, d := range c.sortDecls {
		sb.WriteString(d)
		sb.WriteString("\n")
	}
	for _, d := range c.decls {
		sb.WriteString(d)
		sb.WriteString("\n")
	}
	if nAssume > len(c.assumes) {
		nAssume = len(c.assumes)
	}
	for _, a := range c.assumes[:nAssume] {
		sb.WriteString("(assert ")
		sb.WriteString(a)
		sb.WriteString(")\n")
	}
	sb.WriteString("(assert ")
	sb.WriteString(goal)
	sb.WriteString(")\n(check-sat)\n")
	if len(getValues) > 0 {
		sb.WriteString("(get-value (" + strings.Join(getValues, " ") + "))\n")
	}
	return sb.String()
}

func sortedKeys[V any](m map[string]V) []string {
	var ks []string
	for k := range m {
		ks = append(ks, k)
	}
	sort.Strings(ks)
	return ks
}

func smtInt(n int64) string {
	if n < 0 {
		return fmt.Sprintf("(- %d)", -n)
	}
	return fmt.Sprintf("%d", n)
}

func smtString(s string) string {
	var sb strings.Builder
	sb.WriteByte('"')
	for _, r := range s {
		switch {
		case r == '"':
			sb.WriteString(`""`)
		case r < 32 || r > 126 || r == '\\':
			sb.WriteString(fmt.Sprintf("\\u{%x}", r))
		default:
			sb.WriteRune(r)
		}
	}
	sb.WriteByte('"')
	return sb.String()
}

func and(xs ...string) string {
	var ys []string
	for _, x := range xs {
		if x == "" || x == "true" {
			continue
		}
		if x == "false" {
			return "false"
		}
		ys = append(ys, x)
	}
	switch len(ys) {
	case 0:
		return "true"
	case 1:
		return ys[0]
	}
	return "(and " + strings.Join(ys, " ") + ")"
}

func or(xs ...string) string {
	var ys []string
	for _, x := range xs {
		if x == "" || x == "false" {
			continue
		}
		if x == "true" {
			return "true"
		}
		ys = append(ys, x)
	}
	switch len(ys) {
	case 0:
		return "false"
	case 1:
		return ys[0]
	}
	return "(or " + strings.Join(ys, " ") + ")"
}

func not(x string) string {
	switch x {
	case "true":
		return "false"
	case "false":
		return "true"
	}
	return "(not " + x + ")"
}

func implies(a, b string) string {
	if a == "true" {
		return b
	}
	if b == "true" || a == "false" {
		return "true"
	}
	return "(=> " + a + " " + b + ")"
}
